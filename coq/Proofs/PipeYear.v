(* Proofs/PipeYear.v -- C18 (years and edition guesses of extracted citations,
   remove_ambiguous) and C04 (extraction is total on a well-formed token stream)
   for Model/Pipeline.v:get_citations. *)
From EV Require Import Base.Str Base.PyVal Model.Tokenize Model.Editions Model.Filter Model.Pipeline
                       Proofs.EditionsProofs Proofs.FilterProofs Proofs.PipeSpec.
Open Scope Z_scope.

(* the only fact about the searches that totality needs: the short-form antecedent pattern always
   captures its antecedent group (m["antecedent"].strip() would raise on None) *)
Definition search_total_ok (search : pat -> str -> option mres) : Prop :=
  forall w m, search PShortAnte w = Some m ->
    exists a b, gspan g_antecedent (m_groups m) = Some (a, b).

Lemma search_total_ok_of_w : forall Wok search, search_ok_w Wok search -> search_total_ok search.
Proof.
  intros Wok search H w m Hs. destruct (H _ _ _ Hs) as (_ & _ & _ & _ & _ & Ha). exact (Ha eq_refl).
Qed.

Lemma search_total_ok_of_ok : forall search, search_ok search -> search_total_ok search.
Proof.
  intros search H w m Hs. destruct (H _ _ _ Hs) as (_ & _ & _ & _ & _ & Ha). exact (Ha eq_refl).
Qed.

Section PY.
  Variable search : pat -> str -> option mres.
  Variable refsearch : list (str * str) -> str -> list (nat * nat * list (str * option str)).
  Variable MAXC : nat.
  Variable BACK : nat.
  Variable D : dtables.
  Variable highest : Z.
  Variable this_year : Z.
  Variable edition_of : nat -> option edition.
  Variable source_of : nat -> nat.
  Variable valid_name : str -> bool.
  Variable is_space : N -> bool.

  Local Notation apost := (add_post_citation search MAXC D highest is_space).
  Local Notation adef := (add_defendant search BACK D highest is_space).
  Local Notation apre := (add_pre_citation search MAXC).
  Local Notation alaw := (add_law_metadata search MAXC D highest).
  Local Notation ajou := (add_journal_metadata search MAXC D highest).
  Local Notation wguess := (with_guess this_year edition_of).
  Local Notation epin := (extract_pin_cite search MAXC).
  Local Notation efull := (extract_full search MAXC BACK D highest this_year edition_of source_of is_space).
  Local Notation eshort := (extract_short search MAXC this_year edition_of is_space).
  Local Notation esupra := (extract_supra search MAXC).
  Local Notation eid := (extract_id search MAXC).
  Local Notation refs := (references refsearch valid_name).
  Local Notation cstep :=
    (cite_step search refsearch MAXC BACK D highest this_year edition_of source_of valid_name is_space).
  Local Notation crun :=
    (cite_run search refsearch MAXC BACK D highest this_year edition_of source_of valid_name is_space).
  Local Notation gcit :=
    (get_citations search refsearch MAXC BACK D highest this_year edition_of source_of valid_name is_space).

  (* ================= invariants ================= *)

  (* the numeric year and the textual year are set together *)
  Definition yinv (c : pcit) : Prop :=
    p_year c = None \/ exists ys, p_year_s c = Some ys /\ get_year D highest ys = p_year c.

  Definition cands (c : pcit) : list edition :=
    candidates (editions_of edition_of (t_exact (p_tok c))) (editions_of edition_of (t_var (p_tok c))).

  Definition ginv (c : pcit) : Prop :=
    (forall e, p_guess c = Some e -> In e (cands c)) /\
    (forall e, is_resource c = true -> cands c = [e] -> p_guess c = Some e).

  Definition inv (c : pcit) : Prop := yinv c /\ ginv c.

  Lemma yinv_ext c c' :
    p_year c' = p_year c -> p_year_s c' = p_year_s c -> yinv c -> yinv c'.
  Proof. unfold yinv. intros -> ->. auto. Qed.

  Lemma yinv_year_ok c : yinv c -> year_ok D highest c.
  Proof.
    unfold year_ok. intros [Hn|(ys & Hs & Hy)] y Hy'; [congruence|].
    rewrite Hy' in Hy. split; [apply (get_year_sound _ _ _ _ Hy)|].
    exists ys. split; assumption.
  Qed.

  Lemma ginv_ext c c' :
    p_guess c' = p_guess c -> p_tok c' = p_tok c -> p_cls c' = p_cls c -> ginv c -> ginv c'.
  Proof.
    unfold ginv, cands, is_resource. intros -> -> ->. auto.
  Qed.

  Lemma ginv_none c : p_guess c = None -> is_resource c = false -> ginv c.
  Proof.
    intros Hg Hr. split.
    - intros e He. congruence.
    - intros e He. congruence.
  Qed.

  (* ---------- with_guess ---------- *)
  Lemma wguess_yinv c : yinv c -> yinv (wguess c).
  Proof. apply yinv_ext; reflexivity. Qed.

  Lemma wguess_ginv c : ginv (wguess c).
  Proof.
    split.
    - intros e He.
      change (guess_edition this_year (editions_of edition_of (t_exact (p_tok c)))
                (editions_of edition_of (t_var (p_tok c))) (p_year c) = Some e) in He.
      change (In e (cands c)). unfold cands.
      eapply guess_in_candidates. exact He.
    - intros e _ He.
      change (cands c = [e]) in He. unfold cands in He.
      change (guess_edition this_year (editions_of edition_of (t_exact (p_tok c)))
                (editions_of edition_of (t_var (p_tok c))) (p_year c) = Some e).
      apply guess_singleton. exact He.
  Qed.

  (* ---------- add_post_citation / law / journal ---------- *)
  Lemma apost_yinv c words : p_year c = None -> yinv (apost c words).
  Proof.
    intros Hc. unfold add_post_citation. cbv zeta.
    destruct (search PPostFull _) as [m|]; [|left; exact Hc].
    destruct (truthy_o (mget m _ g_pin_cite)), (truthy_o (mget m _ g_court));
      destruct (mget m _ g_year) as [[|y0 ys]|]; cbn [truthy_o];
      first [ left; exact Hc | right; exists (y0 :: ys); split; reflexivity ].
  Qed.

  Lemma alaw_yinv c words : p_year c = None -> yinv (alaw c words).
  Proof.
    intros Hc. unfold add_law_metadata. cbv zeta.
    destruct (search PPostLaw _) as [m|]; [|left; exact Hc].
    destruct (mget m _ g_year) as [[|y0 ys]|]; cbn [truthy_o];
      first [ left; exact Hc | right; exists (y0 :: ys); split; reflexivity ].
  Qed.

  Lemma ajou_yinv c words : p_year c = None -> yinv (ajou c words).
  Proof.
    intros Hc. unfold add_journal_metadata. cbv zeta.
    destruct (search PPostJournal _) as [m|]; [|left; exact Hc].
    destruct (mget m _ g_year) as [[|y0 ys]|]; cbn [truthy_o];
      first [ left; exact Hc | right; exists (y0 :: ys); split; reflexivity ].
  Qed.

  (* ---------- add_defendant ---------- *)
  Lemma adef_yinv c words c' : adef c words = Ok c' -> yinv c -> yinv c'.
  Proof.
    unfold add_defendant. cbv zeta.
    destruct (def_scan _ _ _ _) as [r|ex]; cbn [bind]; [|discriminate].
    destruct r as [[[si off] pl]|]; [|intros [= <-] Hc; exact Hc].
    destruct (nonempty _).
    - destruct (search PDefYear _) as [m|].
      + intros [= <-] _. destruct (mget m _ g_year) as [ys|].
        * right. exists ys. split; reflexivity.
        * left. reflexivity.
      + intros [= <-]. apply yinv_ext; destruct pl; reflexivity.
    - intros [= <-]. apply yinv_ext; destruct pl; reflexivity.
  Qed.

  (* ---------- add_pre_citation ---------- *)
  Lemma apre_yinv c words : yinv c -> yinv (apre c words).
  Proof.
    unfold add_pre_citation. cbv zeta.
    destruct (_ || _); [auto|].
    destruct (search PPreFull _) as [m|]; [|auto].
    apply yinv_ext; destruct (truthy_o _); reflexivity.
  Qed.

  (* ---------- the constructors ---------- *)
  Lemma efull_inv words i t c : efull words i t = Ok c -> inv c.
  Proof.
    unfold extract_full.
    destruct (full_class source_of t) as [cl|ex]; cbn [bind]; [|discriminate].
    destruct cl.
    - destruct (adef _ words) as [c2|ex] eqn:E; cbn [bind]; [|discriminate].
      intros [= <-]. split; [|apply wguess_ginv].
      apply wguess_yinv, apre_yinv. apply (adef_yinv _ _ _ E). apply apost_yinv. reflexivity.
    - intros [= <-]. split; [|apply wguess_ginv]. apply wguess_yinv, alaw_yinv. reflexivity.
    - intros [= <-]. split; [|apply wguess_ginv]. apply wguess_yinv, ajou_yinv. reflexivity.
    - intros [= <-]. split; [|apply wguess_ginv]. apply wguess_yinv, ajou_yinv. reflexivity.
    - intros [= <-]. split; [|apply wguess_ginv]. apply wguess_yinv, ajou_yinv. reflexivity.
    - intros [= <-]. split; [|apply wguess_ginv]. apply wguess_yinv, ajou_yinv. reflexivity.
    - intros [= <-]. split; [|apply wguess_ginv]. apply wguess_yinv, ajou_yinv. reflexivity.
    - intros [= <-]. split; [|apply wguess_ginv]. apply wguess_yinv, ajou_yinv. reflexivity.
  Qed.

  Lemma eshort_inv words i t c : eshort words i t = Ok c -> inv c.
  Proof.
    unfold extract_short. cbv zeta.
    destruct (match search PShortAnte _ with Some _ => _ | None => Ok tt end) as [u|ex];
      cbn [bind]; [|discriminate].
    destruct (glookup g_page (t_groups t)) as [prefix|]; [|discriminate].
    destruct (epin words i (ze t) _) as [[[pin se] par]|ex]; cbn [bind]; [|discriminate].
    intros [= <-]. split; [|apply wguess_ginv]. left. reflexivity.
  Qed.

  Lemma esupra_inv words i t c : esupra words i t = Ok c -> inv c.
  Proof.
    unfold extract_supra.
    destruct (epin words i (ze t) (Some [])) as [[[pin se] par]|ex]; cbn [bind]; [|discriminate].
    cbv zeta. intros [= <-]. split; [left; reflexivity|apply ginv_none; reflexivity].
  Qed.

  Lemma eid_inv words i t c : eid words i t = Ok c -> inv c.
  Proof.
    unfold extract_id.
    destruct (epin words i (ze t) (Some [])) as [[[pin se] par]|ex]; cbn [bind]; [|discriminate].
    intros [= <-]. split; [left; reflexivity|apply ginv_none; reflexivity].
  Qed.

  Lemma parallel_inv c pre : inv c -> inv pre -> inv (parallel c pre).
  Proof.
    intros [Hy Hg] [Hy' _]. unfold parallel. destruct (oz_eqb _ _); [|split; assumption].
    split.
    - revert Hy'. apply yinv_ext; reflexivity.
    - revert Hg. apply ginv_ext; reflexivity.
  Qed.

  Lemma refs_inv text c : Forall inv (refs text c).
  Proof.
    apply Forall_forall. intros x Hx. unfold references in Hx. cbv zeta in Hx.
    destruct (zlen text <=? _); [destruct Hx|].
    destruct (p_cls c); try (destruct Hx).
    destruct (flat_map _ _) as [|n ns]; [destruct Hx|].
    apply in_map_iff in Hx. destruct Hx as ([[a b] gd] & <- & _).
    split; [left; reflexivity|apply ginv_none; reflexivity].
  Qed.

  Lemma cstep_inv text words acc it acc' :
    cstep text words acc it = Ok acc' -> Forall inv acc -> Forall inv acc'.
  Proof.
    unfold cite_step. destruct it as [i t]. destruct (t_kind t).
    - destruct (t_short t).
      + destruct (eshort words i t) as [c|ex] eqn:E; cbn [bind]; [|discriminate].
        intros [= <-] H. constructor; [exact (eshort_inv _ _ _ _ E)|exact H].
      + destruct (efull words i t) as [c0|ex] eqn:E; cbn [bind]; [|discriminate].
        intros [= <-] H. apply efull_inv in E.
        assert (Hc : inv (match acc with
                          | pre :: _ => if is_full_case c0 && is_full_case pre then parallel c0 pre else c0
                          | [] => c0
                          end)).
        { destruct acc as [|pre r]; [exact E|].
          destruct (is_full_case c0 && is_full_case pre); [|exact E].
          apply parallel_inv; [exact E|]. inversion H; assumption. }
        constructor; [exact Hc|].
        apply Forall_app. split; [|exact H]. apply Forall_rev, refs_inv.
    - intros [= <-] H. constructor; [|exact H].
      split; [left; reflexivity|apply ginv_none; reflexivity].
    - destruct (esupra words i t) as [c|ex] eqn:E; cbn [bind]; [|discriminate].
      intros [= <-] H. constructor; [exact (esupra_inv _ _ _ _ E)|exact H].
    - destruct (eid words i t) as [c|ex] eqn:E; cbn [bind]; [|discriminate].
      intros [= <-] H. constructor; [exact (eid_inv _ _ _ _ E)|exact H].
    - intros [= <-] H; exact H.
    - intros [= <-] H; exact H.
    - intros [= <-] H; exact H.
  Qed.

  Lemma crun_inv text words its : forall acc acc',
    crun text words acc its = Ok acc' -> Forall inv acc -> Forall inv acc'.
  Proof.
    induction its as [|it r IH]; intros acc acc'; cbn [cite_run].
    - intros [= <-] H; exact H.
    - destruct (cstep text words acc it) as [a1|ex] eqn:E; cbn [bind]; [|discriminate].
      intros Hr H. apply (IH _ _ Hr). apply (cstep_inv _ _ _ _ _ E H).
  Qed.

  (* ---------- the filters only select ---------- *)
  Lemma filter_pcits_in l c : In c (filter_pcits l) -> In c l.
  Proof.
    unfold filter_pcits. intros H. apply in_flat_map in H. destruct H as (f & _ & Hf).
    destruct (nth_error l (f_id f)) as [c'|] eqn:E; [|destruct Hf].
    destruct Hf as [<-|[]]. eapply nth_error_In. exact E.
  Qed.

  Lemma disambiguate_in (l : list pcit) c : In c (disambiguate is_resource has_guess l) -> In c l.
  Proof. unfold disambiguate. intros H. apply filter_In in H. tauto. Qed.

  Lemma joke_inv : inv joke_cite.
  Proof.
    split; [left; reflexivity|]. split.
    - intros e He. discriminate He.
    - intros e _ He. discriminate He.
  Qed.

  Lemma gcit_inv text words cits ra l : gcit text words cits ra = Ok l -> Forall inv l.
  Proof.
    unfold get_citations. destruct (str_eqb text s_eyecite).
    - intros [= <-]. constructor; [apply joke_inv|constructor].
    - destruct (crun text words [] cits) as [acc|ex] eqn:E; cbn [bind]; [|discriminate].
      intros [= <-]. apply crun_inv in E; [|constructor].
      apply Forall_forall. intros c Hc.
      assert (Hin : In c (filter_pcits (rev acc))).
      { destruct ra; [apply disambiguate_in in Hc|]; exact Hc. }
      apply filter_pcits_in, in_rev in Hin.
      rewrite Forall_forall in E. apply E, Hin.
  Qed.

  (* ================= totality ================= *)

  Lemma In_firstn {A} n (l : list A) x : In x (firstn n l) -> In x l.
  Proof.
    intros H. rewrite <- (firstn_skipn n l). apply in_or_app. left. exact H.
  Qed.

  Lemma epin_total words i fe pre : exists r, epin words i fe (Some pre) = Ok r.
  Proof.
    unfold extract_pin_cite. cbv zeta. destruct (search PPostShort _) as [m|]; eexists; reflexivity.
  Qed.

  Lemma existsb_src k ids i :
    In i ids -> source_of i = k -> existsb (Nat.eqb k) (map source_of ids) = true.
  Proof.
    intros Hi Hk. apply existsb_exists. exists (source_of i). split; [apply in_map, Hi|].
    rewrite Hk. apply Nat.eqb_refl.
  Qed.

  Lemma full_class_total t :
    (exists i, In i (match t_exact t with [] => t_var t | l => l end) /\ (source_of i <= 2)%nat) ->
    exists cl, full_class source_of t = Ok cl.
  Proof.
    intros (i & Hi & Hs). unfold full_class. cbv zeta.
    destruct (existsb (Nat.eqb 0) _) eqn:E0; [eexists; reflexivity|].
    destruct (existsb (Nat.eqb 1) _) eqn:E1; [eexists; reflexivity|].
    destruct (existsb (Nat.eqb 2) _) eqn:E2; [eexists; reflexivity|].
    exfalso.
    assert (Hc : source_of i = 0%nat \/ source_of i = 1%nat \/ source_of i = 2%nat) by lia.
    destruct Hc as [Hc|[Hc|Hc]].
    - rewrite (existsb_src _ _ _ Hi Hc) in E0. discriminate.
    - rewrite (existsb_src _ _ _ Hi Hc) in E1. discriminate.
    - rewrite (existsb_src _ _ _ Hi Hc) in E2. discriminate.
  Qed.

  Lemma def_scan_total all ws :
    (forall t, In (T t) ws -> tok_ok source_of t) ->
    forall idx off, exists r, def_scan all ws idx off = Ok r.
  Proof.
    induction ws as [|e r IH]; intros Hok idx off; cbn [def_scan]; [eexists; reflexivity|].
    assert (Hr : forall t, In (T t) r -> tok_ok source_of t) by (intros t Ht; apply Hok; right; exact Ht).
    specialize (IH Hr). cbv zeta.
    destruct e as [s|t].
    - destruct s as [|c [|c' s']].
      + destruct (ends_with SEMI []); [eexists; reflexivity|apply IH].
      + destruct (N.eqb c COMMA); [apply IH|]. destruct (N.eqb c SEMI); [eexists; reflexivity|apply IH].
      + destruct (ends_with SEMI _); [eexists; reflexivity|apply IH].
    - destruct (kind_eqb (t_kind t) KStopWord) eqn:Ek.
      + assert (Hk : t_kind t = KStopWord) by (destruct (t_kind t); try discriminate; reflexivity).
        pose proof (Hok t (or_introl eq_refl)) as Ht. unfold tok_ok in Ht. rewrite Hk in Ht.
        destruct Ht as (v & Hv). rewrite Hv.
        destruct (_ && _); eexists; reflexivity.
      + destruct (ends_with SEMI (t_data t)); [eexists; reflexivity|apply IH].
  Qed.

  Section Total.
    Variable words : list elem.
    Hypothesis Htoks : toks_ok source_of words.
    Hypothesis Hsearch : search_total_ok search.

    Lemma in_words_ok t : In (T t) words -> tok_ok source_of t.
    Proof.
      intros H. apply In_nth_error in H. destruct H as (k & Hk). exact (Htoks k t Hk).
    Qed.

    Lemma adef_total c : exists c', adef c words = Ok c'.
    Proof.
      unfold add_defendant. cbv zeta.
      destruct (def_scan_total words (firstn (BACK - 1) (rev (firstn (p_index c) words)))) with
        (idx := Nat.pred (p_index c)) (off := 0) as (r & Hr).
      { intros t Ht. apply in_words_ok.
        apply In_firstn, in_rev, In_firstn in Ht. exact Ht. }
      rewrite Hr. cbn [bind].
      destruct r as [[[si off] pl]|]; [|eexists; reflexivity].
      destruct (nonempty _); [|eexists; reflexivity].
      destruct (search PDefYear _) as [m|]; eexists; reflexivity.
    Qed.

    Lemma efull_total i t :
      t_kind t = KCitation -> t_short t = false -> tok_ok source_of t -> exists c, efull words i t = Ok c.
    Proof.
      intros Hk Hs Ht. unfold tok_ok in Ht. rewrite Hk in Ht. destruct Ht as (_ & Ht).
      destruct (full_class_total t (Ht Hs)) as (cl & Hcl).
      unfold extract_full. rewrite Hcl. cbn [bind]. cbv zeta.
      destruct cl; try (eexists; reflexivity).
      destruct (adef_total (apost (blank CFullCase t i) words)) as (c2 & Hc2).
      rewrite Hc2. cbn [bind]. eexists; reflexivity.
    Qed.

    Lemma eshort_total i t :
      t_kind t = KCitation -> t_short t = true -> tok_ok source_of t -> exists c, eshort words i t = Ok c.
    Proof.
      intros Hk Hs Ht. unfold tok_ok in Ht. rewrite Hk in Ht. destruct Ht as (Ht & _).
      destruct (Ht Hs) as (pg & Hpg).
      unfold extract_short. cbv zeta. rewrite Hpg.
      destruct (epin_total words i (ze t) (if suffixb pg (t_data t) then pg else []))
        as ([[pin se] par] & Hr).
      replace (if suffixb pg (t_data t) then Some pg else Some [])
        with (Some (if suffixb pg (t_data t) then pg else [])) by (destruct (suffixb pg (t_data t)); reflexivity).
      rewrite Hr.
      destruct (search PShortAnte _) as [m|] eqn:Em.
      - destruct (Hsearch _ _ Em) as (a & b & Hab).
        unfold mget. rewrite Hab. cbn [bind]. eexists; reflexivity.
      - cbn [bind]. eexists; reflexivity.
    Qed.

    Lemma cstep_total text acc i t :
      tok_ok source_of t -> exists acc', cstep text words acc (i, t) = Ok acc'.
    Proof.
      intros Ht. unfold cite_step. destruct (t_kind t) eqn:Hk; try (eexists; reflexivity).
      - destruct (t_short t) eqn:Hs.
        + destruct (eshort_total i t Hk Hs Ht) as (c & Hc). rewrite Hc. cbn [bind]. eexists; reflexivity.
        + destruct (efull_total i t Hk Hs Ht) as (c & Hc). rewrite Hc. cbn [bind]. eexists; reflexivity.
      - unfold extract_supra.
        destruct (epin_total words i (ze t) []) as ([[pin se] par] & Hr). unfold str in Hr. rewrite Hr.
        cbn [bind]. eexists; reflexivity.
      - unfold extract_id.
        destruct (epin_total words i (ze t) []) as ([[pin se] par] & Hr). unfold str in Hr. rewrite Hr.
        cbn [bind]. eexists; reflexivity.
    Qed.

    Lemma crun_total text its :
      (forall i t, In (i, t) its -> tok_ok source_of t) ->
      forall acc, exists acc', crun text words acc its = Ok acc'.
    Proof.
      induction its as [|[i t] r IH]; intros Hok acc; cbn [cite_run]; [eexists; reflexivity|].
      destruct (cstep_total text acc i t) as (a1 & Ha1); [apply (Hok i t); left; reflexivity|].
      rewrite Ha1. cbn [bind]. apply IH. intros i' t' Hin. apply (Hok i' t'). right. exact Hin.
    Qed.
  End Total.
End PY.

(* ================= the theorems ================= *)

(* C18: a numeric year is present only if it is in range and is the value of the textual year *)
Theorem get_citations_year :
  forall search refsearch MAXC BACK D highest this_year edition_of source_of valid_name is_space
         text words cits ra l,
  get_citations search refsearch MAXC BACK D highest this_year edition_of source_of valid_name is_space
    text words cits ra = Ok l ->
  Forall (year_ok D highest) l.
Proof.
  intros search refsearch MAXC BACK D highest this_year edition_of source_of valid_name is_space
         text words cits ra l H.
  apply gcit_inv in H. eapply Forall_impl; [|exact H].
  intros c [Hy _]. apply yinv_year_ok, Hy.
Qed.

(* C18: the guessed edition is one of the candidates (exact if any, else variations) of the token *)
Theorem get_citations_guess_candidates :
  forall search refsearch MAXC BACK D highest this_year edition_of source_of valid_name is_space
         text words cits ra l c e,
  text <> s_eyecite ->
  get_citations search refsearch MAXC BACK D highest this_year edition_of source_of valid_name is_space
    text words cits ra = Ok l ->
  In c l -> p_guess c = Some e ->
  In e (candidates (editions_of edition_of (t_exact (p_tok c))) (editions_of edition_of (t_var (p_tok c)))).
Proof.
  intros search refsearch MAXC BACK D highest this_year edition_of source_of valid_name is_space
         text words cits ra l c e _ H Hc He.
  apply gcit_inv in H. rewrite Forall_forall in H.
  destruct (H c Hc) as [_ [Hg _]]. exact (Hg e He).
Qed.

(* C18: a single candidate is always guessed (resource citations only) *)
Theorem get_citations_guess_singleton :
  forall search refsearch MAXC BACK D highest this_year edition_of source_of valid_name is_space
         text words cits ra l c e,
  text <> s_eyecite ->
  get_citations search refsearch MAXC BACK D highest this_year edition_of source_of valid_name is_space
    text words cits ra = Ok l ->
  In c l -> is_resource c = true ->
  candidates (editions_of edition_of (t_exact (p_tok c))) (editions_of edition_of (t_var (p_tok c))) = [e] ->
  p_guess c = Some e.
Proof.
  intros search refsearch MAXC BACK D highest this_year edition_of source_of valid_name is_space
         text words cits ra l c e _ H Hc Hr He.
  apply gcit_inv in H. rewrite Forall_forall in H.
  destruct (H c Hc) as [_ [_ Hg]]. exact (Hg e Hr He).
Qed.

(* C18: extraction with ambiguous citations removed = the default run minus unguessed
   resource citations, same order.
   The statement WITHOUT the hypothesis text <> s_eyecite is false: for the text
   "eyecite" both runs return [joke_cite], which is a resource citation without a
   guess (see get_citations_remove_ambiguous_counterexample). *)
Theorem get_citations_remove_ambiguous_weak :
  forall search refsearch MAXC BACK D highest this_year edition_of source_of valid_name is_space
         text words cits l,
  text <> s_eyecite ->
  get_citations search refsearch MAXC BACK D highest this_year edition_of source_of valid_name is_space
    text words cits false = Ok l ->
  get_citations search refsearch MAXC BACK D highest this_year edition_of source_of valid_name is_space
    text words cits true = Ok (disambiguate is_resource has_guess l).
Proof.
  intros search refsearch MAXC BACK D highest this_year edition_of source_of valid_name is_space
         text words cits l Hne.
  unfold get_citations. destruct (str_eqb_spec text s_eyecite) as [Heq|_]; [contradiction|].
  destruct (cite_run _ _ _ _ _ _ _ _ _ _ _ text words [] cits) as [acc|ex]; cbn [bind]; [|discriminate].
  intros [= <-]. reflexivity.
Qed.

(* the unconditional form: the easter-egg list is returned unfiltered *)
Theorem get_citations_remove_ambiguous_general :
  forall search refsearch MAXC BACK D highest this_year edition_of source_of valid_name is_space
         text words cits l,
  get_citations search refsearch MAXC BACK D highest this_year edition_of source_of valid_name is_space
    text words cits false = Ok l ->
  get_citations search refsearch MAXC BACK D highest this_year edition_of source_of valid_name is_space
    text words cits true =
  Ok (if str_eqb text s_eyecite then l else disambiguate is_resource has_guess l).
Proof.
  intros search refsearch MAXC BACK D highest this_year edition_of source_of valid_name is_space
         text words cits l.
  unfold get_citations. destruct (str_eqb text s_eyecite).
  - intros [= <-]. reflexivity.
  - destruct (cite_run _ _ _ _ _ _ _ _ _ _ _ text words [] cits) as [acc|ex]; cbn [bind]; [|discriminate].
    intros [= <-]. reflexivity.
Qed.

Theorem get_citations_remove_ambiguous_counterexample :
  forall search refsearch MAXC BACK D highest this_year edition_of source_of valid_name is_space
         words cits,
  get_citations search refsearch MAXC BACK D highest this_year edition_of source_of valid_name is_space
    s_eyecite words cits false = Ok [joke_cite] /\
  get_citations search refsearch MAXC BACK D highest this_year edition_of source_of valid_name is_space
    s_eyecite words cits true <> Ok (disambiguate is_resource has_guess [joke_cite]).
Proof.
  intros. split; [reflexivity|]. intros H. discriminate H.
Qed.

(* hence the statement as originally posed (no hypothesis on text) is refutable *)
Theorem get_citations_remove_ambiguous_false :
  ~ (forall search refsearch MAXC BACK D highest this_year edition_of source_of valid_name is_space
            text words cits l,
     get_citations search refsearch MAXC BACK D highest this_year edition_of source_of valid_name is_space
       text words cits false = Ok l ->
     get_citations search refsearch MAXC BACK D highest this_year edition_of source_of valid_name is_space
       text words cits true = Ok (disambiguate is_resource has_guess l)).
Proof.
  intros H.
  destruct (get_citations_remove_ambiguous_counterexample
              (fun _ _ => None) (fun _ _ => []) 0%nat 0%nat {| d_nd := []; d_isdigit := []; d_maxdigits := 4300%N |} 0 0
              (fun _ => None) (fun _ => 0%nat) (fun _ => false) (fun _ => false) [] []) as [H1 H2].
  apply H2. apply H. exact H1.
Qed.

(* C04: extraction never raises on a well-formed token stream; of the searches only the
   antecedent clause is needed *)
Theorem get_citations_total_w :
  forall search refsearch MAXC BACK D highest this_year edition_of source_of valid_name is_space
         text words cits ra,
  cits_ok words cits -> toks_ok source_of words -> search_total_ok search ->
  exists l,
    get_citations search refsearch MAXC BACK D highest this_year edition_of source_of valid_name is_space
      text words cits ra = Ok l.
Proof.
  intros search refsearch MAXC BACK D highest this_year edition_of source_of valid_name is_space
         text words cits ra Hc Ht Hs.
  unfold get_citations. destruct (str_eqb text s_eyecite); [eexists; reflexivity|].
  destruct (crun_total search refsearch MAXC BACK D highest this_year edition_of source_of valid_name
              is_space words Ht Hs text cits) with (acc := @nil pcit) as (acc & Hacc).
  { intros i t Hin. exact (Ht i t (Hc i t Hin)). }
  rewrite Hacc. cbn [bind]. eexists; reflexivity.
Qed.

Theorem get_citations_total :
  forall search refsearch MAXC BACK D highest this_year edition_of source_of valid_name is_space
         text words cits ra,
  cits_ok words cits -> toks_ok source_of words -> search_ok search ->
  exists l,
    get_citations search refsearch MAXC BACK D highest this_year edition_of source_of valid_name is_space
      text words cits ra = Ok l.
Proof.
  intros search refsearch MAXC BACK D highest this_year edition_of source_of valid_name is_space
         text words cits ra Hc Ht Hs.
  exact (get_citations_total_w _ _ _ _ _ _ _ _ _ _ _ _ _ _ _ Hc Ht (search_total_ok_of_ok _ Hs)).
Qed.
