(* Proofs/C01Proofs.v -- the minimal written forms are recognised by every extractor of the
   "$full_cite" template family of the live list (reflection over the regenerated table). *)
From EV Require Import Base.Str Regex.Syntax Regex.Decl Regex.Shape Regex.ShapeSound Regex.ShapeSound2 Regex.C13Check.
From EV Require Import Gen.Unicode Gen.ExtractorsAll Gen.ShapesAll Proofs.C13Proofs.

Lemma table_row_shape_ok x : in_table x -> row_ci x = false -> row_shape_ok U (row_re x) (row_lits x) = true.
Proof.
  intros [sh [Hsh Hx]] Hci.
  pose proof all_shapes_ok as H. rewrite forallb_forall in H. specialize (H sh Hsh).
  rewrite forallb_forall in H. specialize (H x Hx). rewrite Hci in H. exact H.
Qed.

Theorem table_minimal_forms : forall x alts page_rest short R pre v comma p post,
  in_table x -> row_ci x = false ->
  shape (row_re x) = Some (alts, page_rest, short) -> In R (row_lits x) ->
  volume_ok U v -> page_ok U p -> (comma = [] \/ comma = [44%N]) -> before_ok pre -> after_ok post ->
  let core := written v R comma short p in
  let text := pre ++ core ++ post in
  M U false text (body_tpl alts page_rest short) (length pre) (length pre + length core) /\
  exists a b, M U false text (row_re x) a b /\
              (a <= length pre)%nat /\ (length pre + length core <= b)%nat /\ (b <= a + length core + 2)%nat.
Proof.
  intros x alts page_rest short R pre v comma p post Hin Hci Hsh HR Hv Hp Hc Hb Ha.
  eapply recognised_row; eauto. apply table_row_shape_ok; assumption.
Qed.
