(* Proofs/PipeMeta.v -- C17: every textual metadata value of a citation returned by
   get_citations is text taken from the citation's own extent (full_span), or -- for
   parallel full case citations -- from the extent of a citation starting at the same place.

   Main results
     get_citations_metadata_weak    donors are taken from the unfiltered citation list (rev acc)
     get_citations_metadata_ra      sorted, non-empty citation tokens: donors are taken from the
                                    result computed with remove_ambiguous = false
     get_citations_metadata_sorted  sorted, non-empty citation tokens, remove_ambiguous = false:
                                    Forall (meta_ok text l) l
   all under the extra hypothesis defyear_ok (see below), and the counterexamples
     metadata_needs_defyear, metadata_needs_sorted
   showing that the statement without defyear_ok / without cits_sorted is false for the model. *)
From Coq Require Import Sorted.
From EV Require Import Base.Str Base.PyVal Model.Tokenize Model.Editions Model.Filter Model.Pipeline
                       Proofs.TokenizeProofs Proofs.PipeSpec Proofs.PipeWindows Proofs.PipeOffsets
                       Proofs.FilterProofs.
Open Scope Z_scope.

(* ------------------------------------------------------------------ *)
(* infixes of slices                                                   *)
(* ------------------------------------------------------------------ *)

Lemma firstn_infix (k : nat) (s : str) : infix (firstn k s) s.
Proof. exists [], (skipn k s). cbn [app]. symmetry. apply firstn_skipn. Qed.

Lemma skipn_infix (k : nat) (s : str) : infix (skipn k s) s.
Proof. exists (firstn k s), []. rewrite app_nil_r. symmetry. apply firstn_skipn. Qed.

Lemma slice_infix (s : str) a b : infix (slice s a b) s.
Proof.
  unfold slice. eapply infix_trans; [apply firstn_infix|apply skipn_infix].
Qed.

Lemma infix_nil_inv (v : str) : infix v [] -> v = [].
Proof.
  intros (a & b & H). symmetry in H. apply app_eq_nil in H. destruct H as [_ H].
  apply app_eq_nil in H. tauto.
Qed.

Lemma infix_widen (v text : str) lo hi lo' hi' :
  (lo' <= lo)%nat -> (hi <= hi')%nat -> infix v (slice text lo hi) -> infix v (slice text lo' hi').
Proof.
  intros H1 H2 H. destruct (Nat.le_gt_cases lo hi) as [Hle|Hgt].
  - apply infix_slice_widen with (a := lo) (b := hi); assumption.
  - rewrite slice_empty in H by lia. apply infix_nil_inv in H. subst v. apply infix_nil.
Qed.

Lemma rstrip_infix P s : infix (rstrip P s) s.
Proof.
  destruct (rstrip_prefix P s) as [tl Htl]. rewrite Htl at 2. apply infix_app_r, infix_refl.
Qed.

Lemma lstrip_infix P s : infix (lstrip P s) s.
Proof.
  destruct (lstrip_suffix P s) as [h Hh]. rewrite Hh at 2. apply infix_app_l, infix_refl.
Qed.

Lemma strip_infix_lstrip P s : infix (strip P s) (lstrip P s).
Proof. unfold strip. apply rstrip_infix. Qed.

Lemma skipn_slice {A} (s : list A) a b k : skipn k (slice s a b) = slice s (a + k) b.
Proof.
  unfold slice. rewrite skipn_firstn_comm, <- skipn_plus. f_equal. lia.
Qed.

(* a suffix of a slice is the slice of the same length ending at the same place *)
Lemma suffix_of_slice (text h r : str) a b :
  (a <= b)%nat -> (b <= length text)%nat -> slice text a b = h ++ r ->
  r = slice text (b - length r) b /\ (a <= b - length r)%nat /\ (length r <= b)%nat.
Proof.
  intros Hab Hb H.
  assert (Hl : (length h + length r = b - a)%nat).
  { rewrite <- app_length, <- H. apply slice_length; assumption. }
  split; [|lia].
  replace (b - length r)%nat with (a + length h)%nat by lia.
  rewrite <- skipn_slice, H. symmetry. apply skipn_length_app.
Qed.

(* ------------------------------------------------------------------ *)
(* located values                                                      *)
(* ------------------------------------------------------------------ *)

Definition loc (text : str) (lo hi : nat) (o : option str) : Prop :=
  forall v, o = Some v -> infix v (slice text lo hi).

Lemma loc_none text lo hi : loc text lo hi None.
Proof. intros v H. discriminate H. Qed.

Lemma loc_widen text lo hi lo' hi' o :
  (lo' <= lo)%nat -> (hi <= hi')%nat -> loc text lo hi o -> loc text lo' hi' o.
Proof. intros H1 H2 H v Hv. eapply infix_widen; [exact H1|exact H2|]. apply H, Hv. Qed.

Lemma loc_falsy text lo hi o : truthy_o o = false -> loc text lo hi o.
Proof.
  intros H v Hv. subst o. destruct v; [apply infix_nil|discriminate H].
Qed.

Lemma loc_some text lo hi v : infix v (slice text lo hi) -> loc text lo hi (Some v).
Proof. intros H v' [= <-]. exact H. Qed.

(* all textual metadata of a citation lies in text[lo:hi] *)
Definition locs (text : str) (lo hi : nat) (c : pcit) : Prop :=
  loc text lo hi (p_pin c) /\ loc text lo hi (p_year_s c) /\ loc text lo hi (p_plaintiff c) /\
  loc text lo hi (p_defendant c) /\ loc text lo hi (p_antecedent c) /\ loc text lo hi (p_extra c) /\
  loc text lo hi (p_publisher c) /\ loc text lo hi (p_month c) /\ loc text lo hi (p_day c) /\
  loc text lo hi (p_volume c) /\ (p_cls c = CFullCase -> loc text lo hi (p_parenthetical c)).

Lemma locs_widen text lo hi lo' hi' c :
  (lo' <= lo)%nat -> (hi <= hi')%nat -> locs text lo hi c -> locs text lo' hi' c.
Proof.
  intros H1 H2 (L1 & L2 & L3 & L4 & L5 & L6 & L7 & L8 & L9 & L10 & L11).
  unfold locs. repeat apply conj; try (eapply loc_widen; eassumption).
  intros Hc. eapply loc_widen; [exact H1|exact H2|apply L11, Hc].
Qed.

(* own extent *)
Definition own (text : str) (c : pcit) : Prop :=
  forall v, In (Some v) (text_fields c) -> inside text c v.

Lemma inside_rng text c v lo hi :
  0 <= fst (full_span_of c) <= Z.of_nat lo -> Z.of_nat hi <= snd (full_span_of c) <= tlen text ->
  infix v (slice text lo hi) -> inside text c v.
Proof.
  intros H1 H2 H. unfold inside, tlen in *.
  destruct (Nat.le_gt_cases lo hi) as [Hle|Hgt].
  - rewrite pyslice_in by lia.
    eapply infix_widen; [| |exact H]; lia.
  - rewrite slice_empty in H by lia. apply infix_nil_inv in H. subst v. apply infix_nil.
Qed.

Lemma locs_own text lo hi c :
  0 <= fst (full_span_of c) <= Z.of_nat lo -> Z.of_nat hi <= snd (full_span_of c) <= tlen text ->
  locs text lo hi c -> own text c.
Proof.
  intros H1 H2 (L1 & L2 & L3 & L4 & L5 & L6 & L7 & L8 & L9 & L10 & L11) v Hin.
  unfold text_fields in Hin. cbn [In] in Hin.
  assert (G : forall o, loc text lo hi o -> o = Some v -> inside text c v).
  { intros o Ho Hv. eapply inside_rng; [exact H1|exact H2|]. apply Ho, Hv. }
  destruct Hin as [H|[H|[H|[H|[H|[H|[H|[H|[H|[H|[H|[]]]]]]]]]]]]; eauto.
  destruct (p_cls c) eqn:Ec; try discriminate H. eapply G; [apply L11; reflexivity|exact H].
Qed.

(* ------------------------------------------------------------------ *)
(* match groups                                                        *)
(* ------------------------------------------------------------------ *)

Lemma gspan_key name g a b : gspan name g = Some (a, b) -> In (name, Some (a, b)) g.
Proof.
  induction g as [|[k v] g IH]; cbn [gspan]; [discriminate|].
  destruct (str_eqb_spec k name) as [->|_].
  - intros ->. left. reflexivity.
  - intros H. right. apply IH, H.
Qed.

Lemma mget_infix m w name s : mget m w name = Some s -> infix s w.
Proof.
  unfold mget. destruct (gspan name (m_groups m)) as [[a b]|]; [|discriminate].
  intros [= <-]. apply slice_infix.
Qed.

Lemma glookup_In k (g : groups) v : glookup k g = Some v -> In (k, v) g.
Proof.
  induction g as [|[k' v'] g IH]; cbn [glookup]; [discriminate|].
  destruct (str_eqb_spec k k') as [->|_].
  - intros [= ->]. left. reflexivity.
  - intros H. right. apply IH, H.
Qed.

Lemma clean_pin_or_none_infix o p s : clean_pin_or_none o = Some p -> o = Some s -> infix p s.
Proof.
  intros H Hs. destruct (clean_pin_or_none_some _ _ H) as (s0 & Hs0 & -> & _).
  rewrite Hs in Hs0. injection Hs0 as <-. apply strip_infix.
Qed.

Lemma or_none_some s v : or_none s = Some v -> v = s.
Proof. destruct s; [discriminate|]. intros [= <-]. reflexivity. Qed.

(* Extra hypothesis about DEFENDANT_YEAR_REGEX needed by C17 (see metadata_needs_defyear):
   when the pattern captures a non-empty year it also captures a non-empty defendant. *)
Definition defyear_ok (search : pat -> str -> option mres) : Prop :=
  forall w m, search PDefYear w = Some m ->
    truthy_o (mget m w g_year) = true -> truthy_o (mget m w g_defendant) = true.

(* relativised to a window predicate; defyear_ok_g: the windows add_defendant builds from a text
   without whitespace other than U+0020 (the window is stripped of ", (" so it starts with a
   non-whitespace character) *)
Definition defyear_ok_w (Wd : str -> Prop) (search : pat -> str -> option mres) : Prop :=
  forall w m, Wd w -> search PDefYear w = Some m ->
    truthy_o (mget m w g_year) = true -> truthy_o (mget m w g_defendant) = true.

Definition defyear_ok_g (is_space : N -> bool) (search : pat -> str -> option mres) : Prop :=
  forall w m, ws_clean is_space w -> (exists c r, w = c :: r /\ is_space c = false) ->
    search PDefYear w = Some m ->
    truthy_o (mget m w g_year) = true -> truthy_o (mget m w g_defendant) = true.

Definition defyear_window (is_space : N -> bool) (w : str) : Prop :=
  ws_clean is_space w /\ exists c r, w = c :: r /\ is_space c = false.

Lemma defyear_ok_w_of_ok : forall Wd search, defyear_ok search -> defyear_ok_w Wd search.
Proof. intros Wd search H w m _ Hs. exact (H w m Hs). Qed.

Lemma defyear_ok_g_of_ok : forall is_space search, defyear_ok search -> defyear_ok_g is_space search.
Proof. intros is_space search H w m _ _ Hs. exact (H w m Hs). Qed.

Lemma defyear_ok_w_of_g : forall is_space search,
  defyear_ok_g is_space search -> defyear_ok_w (defyear_window is_space) search.
Proof. intros is_space search H w m [H1 H2] Hs. exact (H w m H1 H2 Hs). Qed.

(* the head of a non-empty stripped string is not a stripped character *)
Lemma lstrip_head P s c r : lstrip P s = c :: r -> P c = false.
Proof.
  induction s as [|x s IH]; cbn [lstrip]; [discriminate|].
  destruct (P x) eqn:Ex; [exact IH|]. intros [= <- _]. exact Ex.
Qed.

Lemma strip_head P s c r : strip P s = c :: r -> P c = false.
Proof.
  unfold strip. intros H. destruct (rstrip_prefix P (lstrip P s)) as [tl Htl].
  rewrite H in Htl. cbn [app] in Htl. exact (lstrip_head P s c (r ++ tl) Htl).
Qed.

Lemma infix_In (p s : str) : infix p s -> forall c, In c p -> In c s.
Proof. intros [a [b ->]] c Hc. apply in_or_app. right. apply in_or_app. left. exact Hc. Qed.

Section Meta.
  Variable search : pat -> str -> option mres.
  Variable refsearch : list (str * str) -> str -> list (nat * nat * list (str * option str)).
  Variable MAXC : nat.
  Variable BACK : nat.
  Variable D : dtables.
  Variable highest : Z.
  Variable this_year : Z.
  Variable edition_of : nat -> option edition.
  Variable source_of : nat -> nat.
  Variable valid_name : str -> bool.
  Variable is_space : N -> bool.
  Variable text : str.
  Variable words : list elem.
  Variable Wok : str -> Prop.     (* windows on which the backward-anchor clause is required *)
  Variable Wd : str -> Prop.      (* windows on which defyear_ok is required *)

  Hypothesis Hstream : stream_ok text words.
  Hypothesis Hsearch : search_ok_w Wok search.
  Hypothesis HWok : forall a b, Wok (slice text a b).
  (* the window of add_defendant: a non-empty infix of the text whose first character is none of
     ", (" *)
  Hypothesis HWd : forall w c r, infix w text -> w = c :: r ->
    in_chars [COMMA; SP; LPAR] c = false -> Wd w.

  Let twf := tok_wf text words Hstream.

  (* ---------- groups of a match in a window ---------- *)
  Lemma fwd_group i t so p m name s :
    nth_error words i = Some (T t) ->
    search p (window_fwd MAXC words (S i) [] so) = Some m ->
    mget m (window_fwd MAXC words (S i) [] so) name = Some s ->
    exists a b, gspan name (m_groups m) = Some (a, b) /\
      s = slice text (t_end t + a) (t_end t + b) /\
      (a <= b)%nat /\ (b <= m_end m)%nat /\ (t_end t + m_end m <= length text)%nat.
  Proof.
    intros Hn Hs Hg.
    destruct (fwd_match search MAXC text words Wok Hstream Hsearch _ _ _ _ _ Hn Hs) as (n & Hw & Hle & Hme & Hok).
    destruct (mget_span _ _ _ _ Hok Hg) as (a & b & Hgs & Hsl & Ha & Hab & Hb & _ & _).
    exists a, b. split; [exact Hgs|]. split; [|lia].
    rewrite Hsl, Hw. apply slice_slice. lia.
  Qed.

  Lemma fwd_end i t so p m :
    nth_error words i = Some (T t) ->
    search p (window_fwd MAXC words (S i) [] so) = Some m ->
    (t_end t + m_end m <= length text)%nat.
  Proof.
    intros Hn Hs.
    destruct (fwd_match search MAXC text words Wok Hstream Hsearch _ _ _ _ _ Hn Hs) as (n & Hw & Hle & Hme & Hok).
    lia.
  Qed.

  Lemma bwd_len i t p m :
    nth_error words i = Some (T t) ->
    search p (window_bwd MAXC words i true) = Some m ->
    (m_start m <= m_end m)%nat /\ (m_end m - m_start m <= t_start t)%nat.
  Proof.
    intros Hn Hs.
    destruct (pos_token _ _ _ _ Hstream Hn) as (Hp0 & _ & _).
    pose proof (bwd_match_len search MAXC text words Wok Hstream Hsearch i true p m
                  (Nat.lt_le_incl _ _ (index_lt words _ _ Hn)) Hs) as H.
    destruct (Hsearch _ _ _ Hs) as ((H1 & _) & _). rewrite Hp0 in H. lia.
  Qed.

  Lemma bwd_group i t p m name s :
    nth_error words i = Some (T t) -> bwd_pat p = true ->
    search p (window_bwd MAXC words i true) = Some m ->
    mget m (window_bwd MAXC words i true) name = Some s ->
    exists lo hi, s = slice text lo hi /\
      (t_start t - (m_end m - m_start m) <= lo)%nat /\ (lo <= hi)%nat /\ (hi <= t_start t)%nat.
  Proof.
    intros Hn Hp Hs Hg.
    destruct (pos_token _ _ _ _ Hstream Hn) as (Hp0 & _ & _).
    destruct (twf _ _ Hn) as (W1 & W2 & W3).
    destruct (window_bwd_suffix MAXC text words i true Hstream
                (Nat.lt_le_incl _ _ (index_lt words _ _ Hn))) as (n & Hnp & Hw).
    rewrite Hp0 in *.
    destruct (Hsearch _ _ _ Hs) as (Hok & _ & Hend & _).
    specialize (Hend Hp ltac:(rewrite Hw; apply HWok)).
    set (w := window_bwd MAXC words i true) in *.
    assert (Hwl : length w = n) by (rewrite Hw, slice_length; lia).
    rewrite Hwl in Hend.
    destruct (mget_span _ _ _ _ Hok Hg) as (a & b & _ & Hsl & Ha & Hab & Hb & _ & _).
    exists (t_start t - n + a)%nat, (t_start t - n + b)%nat.
    split; [|lia]. rewrite Hsl, Hw. apply slice_slice. lia.
  Qed.

  (* ---------- short-form, supra and id citations ---------- *)
  Lemma short_meta i t c :
    nth_error words i = Some (T t) -> tok_ok source_of t ->
    t_kind t = KCitation -> t_short t = true ->
    extract_short search MAXC this_year edition_of is_space words i t = Ok c -> own text c.
  Proof.
    intros Hn Htok Hk Hsh He.
    destruct (twf _ _ Hn) as (W1 & W2 & W3).
    unfold extract_short in He. cbv zeta in He.
    destruct (glookup g_page (t_groups t)) as [prefix|];
      [|match type of He with bind ?x _ = _ => destruct x as [[]|]; discriminate He end].
    destruct (short_prefix (t_data t) prefix) as [Hp'|(pg & Hp' & Hsuf)]; rewrite Hp' in He.
    { match type of He with bind ?x _ = _ => destruct x as [[]|]; [|discriminate He] end.
      cbn [bind extract_pin_cite] in He. discriminate He. }
    set (w := window_bwd MAXC words i true) in *.
    assert (Hante : exists fs : nat,
              zs t - match search PShortAnte w with
                     | Some m => Z.of_nat (m_end m) - Z.of_nat (m_start m)
                     | None => 0 end = Z.of_nat fs /\ (fs <= t_start t)%nat /\
              loc text fs (t_start t)
                  match search PShortAnte w with
                  | Some m => match mget m w g_antecedent with
                              | Some a => Some (strip is_space a)
                              | None => None
                              end
                  | None => None
                  end).
    { destruct (search PShortAnte w) as [m|] eqn:Es.
      - destruct (bwd_len _ _ _ _ Hn Es) as (B1 & B2).
        exists (t_start t - (m_end m - m_start m))%nat. split; [unfold zs; lia|]. split; [lia|].
        destruct (mget m w g_antecedent) as [a0|] eqn:Ea; [|apply loc_none].
        destruct (bwd_group i t PShortAnte m _ _ Hn eq_refl Es Ea) as (lo & hi & -> & B3 & B4 & B5).
        apply loc_some. eapply infix_trans; [apply strip_infix|].
        eapply infix_widen; [| |apply infix_refl]; lia.
      - exists (t_start t). split; [unfold zs; lia|]. split; [lia|apply loc_none]. }
    destruct Hante as (fs & Hfs & Hfsle & Hante).
    set (alen := match search PShortAnte w with
                 | Some m => Z.of_nat (m_end m) - Z.of_nat (m_start m)
                 | None => 0 end) in *.
    set (ante := match search PShortAnte w with
                  | Some m => match mget m w g_antecedent with
                              | Some a => Some (strip is_space a)
                              | None => None
                              end
                  | None => None
                  end) in *.
    clearbody alen ante.
    match type of He with bind ?x _ = _ => destruct x as [[]|]; [|discriminate He] end.
    cbn [bind] in He.
    destruct (extract_pin_cite search MAXC words i (ze t) (Some pg)) as [[[pin span_end] par]|] eqn:Ee;
      [|discriminate He].
    cbn [bind] in He. injection He as <-.
    destruct (epc_ok search MAXC text words Wok Hstream Hsearch _ _ _ _ _ _ Hn Hsuf Ee)
      as [(_ & -> & ->)|(d & -> & Hd & Hpin)].
    - apply locs_own with (lo := fs) (hi := t_end t).
      + unfold full_span_of, span_of. psimp. lia.
      + unfold full_span_of, span_of, tlen, ze. psimp. lia.
      + unfold locs. psimp. repeat apply conj; try apply loc_none; try discriminate.
        eapply loc_widen; [| |exact Hante]; lia.
    - apply locs_own with (lo := fs) (hi := (t_end t + d)%nat).
      + unfold full_span_of, span_of. psimp. lia.
      + unfold full_span_of, span_of, tlen, ze. psimp.
        destruct (Z.eqb_spec (Z.of_nat (t_end t) + Z.of_nat d) 0); lia.
      + unfold locs. psimp. repeat apply conj; try apply loc_none; try discriminate.
        * intros v Hv. eapply infix_widen; [| |apply Hpin, Hv]; lia.
        * eapply loc_widen; [| |exact Hante]; lia.
  Qed.

  Lemma supra_meta i t c :
    nth_error words i = Some (T t) ->
    extract_supra search MAXC words i t = Ok c -> own text c.
  Proof.
    intros Hn He.
    destruct (twf _ _ Hn) as (W1 & W2 & W3).
    unfold extract_supra in He.
    destruct (extract_pin_cite search MAXC words i (ze t) (Some [])) as [[[pin span_end] par]|] eqn:Ee;
      [|discriminate He].
    cbn [bind] in He.
    set (w := window_bwd MAXC words i true) in *.
    assert (Hante : exists fs : nat,
              zs t - match search PSupraAnte w with
                     | Some m => Z.of_nat (m_end m) - Z.of_nat (m_start m)
                     | None => 0 end = Z.of_nat fs /\ (fs <= t_start t)%nat /\
              loc text fs (t_start t)
                  match search PSupraAnte w with Some m => mget m w g_antecedent | None => None end /\
              loc text fs (t_start t)
                  match search PSupraAnte w with Some m => mget m w g_volume | None => None end).
    { destruct (search PSupraAnte w) as [m|] eqn:Es.
      - destruct (bwd_len _ _ _ _ Hn Es) as (B1 & B2).
        exists (t_start t - (m_end m - m_start m))%nat. split; [unfold zs; lia|]. split; [lia|].
        split; intros v Hv;
          destruct (bwd_group i t PSupraAnte m _ _ Hn eq_refl Es Hv) as (lo & hi & -> & B3 & B4 & B5);
          (eapply infix_widen; [| |apply infix_refl]; lia).
      - exists (t_start t). split; [unfold zs; lia|]. split; [lia|split; apply loc_none]. }
    destruct Hante as (fs & Hfs & Hfsle & Hante & Hvol).
    set (alen := match search PSupraAnte w with
                 | Some m => Z.of_nat (m_end m) - Z.of_nat (m_start m)
                 | None => 0 end) in *.
    set (ante := match search PSupraAnte w with Some m => mget m w g_antecedent | None => None end) in *.
    set (vol := match search PSupraAnte w with Some m => mget m w g_volume | None => None end) in *.
    clearbody alen ante vol. injection He as <-.
    destruct (epc_ok search MAXC text words Wok Hstream Hsearch _ _ _ _ _ _ Hn (suffix_nil _) Ee)
      as [(_ & -> & ->)|(d & -> & Hd & Hpin)].
    - apply locs_own with (lo := fs) (hi := t_end t).
      + unfold full_span_of, span_of. psimp. lia.
      + unfold full_span_of, span_of, tlen, ze. psimp. lia.
      + unfold locs. psimp. repeat apply conj; try apply loc_none; try discriminate.
        * eapply loc_widen; [| |exact Hante]; lia.
        * eapply loc_widen; [| |exact Hvol]; lia.
    - apply locs_own with (lo := fs) (hi := (t_end t + d)%nat).
      + unfold full_span_of, span_of. psimp. lia.
      + unfold full_span_of, span_of, tlen, ze. psimp.
        destruct (Z.eqb_spec (Z.of_nat (t_end t) + Z.of_nat d) 0); lia.
      + unfold locs. psimp. repeat apply conj; try apply loc_none; try discriminate.
        * intros v Hv. eapply infix_widen; [| |apply Hpin, Hv]; lia.
        * eapply loc_widen; [| |exact Hante]; lia.
        * eapply loc_widen; [| |exact Hvol]; lia.
  Qed.

  Lemma id_meta i t c :
    nth_error words i = Some (T t) ->
    extract_id search MAXC words i t = Ok c -> own text c.
  Proof.
    intros Hn He.
    destruct (twf _ _ Hn) as (W1 & W2 & W3).
    unfold extract_id in He.
    destruct (extract_pin_cite search MAXC words i (ze t) (Some [])) as [[[pin span_end] par]|] eqn:Ee;
      [|discriminate He].
    cbn [bind] in He. injection He as <-.
    destruct (epc_ok search MAXC text words Wok Hstream Hsearch _ _ _ _ _ _ Hn (suffix_nil _) Ee)
      as [(_ & -> & ->)|(d & -> & Hd & Hpin)].
    - apply locs_own with (lo := t_start t) (hi := t_end t).
      + unfold full_span_of, span_of, zs. psimp. lia.
      + unfold full_span_of, span_of, tlen, ze. psimp. lia.
      + unfold locs. psimp. repeat apply conj; try apply loc_none; try discriminate.
    - apply locs_own with (lo := t_start t) (hi := (t_end t + d)%nat).
      + unfold full_span_of, span_of, zs. psimp. lia.
      + unfold full_span_of, span_of, tlen, ze. psimp. lia.
      + unfold locs. psimp. repeat apply conj; try apply loc_none; try discriminate.
        intros v Hv. apply Hpin, Hv.
  Qed.

  Lemma blank_meta cl t i : cand_wf text t -> own text (blank cl t i).
  Proof.
    intros (W1 & W2 & W3).
    apply locs_own with (lo := t_start t) (hi := t_end t).
    - unfold full_span_of, span_of, zs. psimp. lia.
    - unfold full_span_of, span_of, tlen, ze. psimp. lia.
    - unfold locs. psimp. repeat apply conj; try apply loc_none; try discriminate.
  Qed.

  (* ---------- law and journal citations ---------- *)
  Lemma law_meta i t :
    nth_error words i = Some (T t) ->
    own text (add_law_metadata search MAXC D highest (blank CFullLaw t i) words).
  Proof.
    intros Hn. pose proof (twf _ _ Hn) as Hwf. pose proof Hwf as (W1 & W2 & W3).
    unfold add_law_metadata. psimp. unfold span_of. psimp.
    set (w := window_fwd MAXC words (S i) [] true).
    destruct (search PPostLaw w) as [m|] eqn:Es; [|apply blank_meta; exact Hwf].
    pose proof (fwd_end _ _ _ _ _ Hn Es) as Hend.
    assert (G : forall name s, mget m w name = Some s ->
                infix s (slice text (t_end t) (t_end t + m_end m))).
    { intros name s Hs. destruct (fwd_group _ _ _ _ _ _ _ Hn Es Hs) as (a & b & _ & -> & Hab & Hb & _).
      eapply infix_widen; [| |apply infix_refl]; lia. }
    assert (Lpin : loc text (t_end t) (t_end t + m_end m) (clean_pin_or_none (mget m w g_pin_cite))).
    { intros v Hv. destruct (clean_pin_or_none_some _ _ Hv) as (s0 & Hs0 & -> & _).
      eapply infix_trans; [apply strip_infix|apply (G _ _ Hs0)]. }
    cbv zeta.
    destruct (truthy_o (mget m w g_year)).
    all: apply locs_own with (lo := t_end t) (hi := (t_end t + m_end m)%nat);
      [unfold full_span_of, span_of, zs; psimp; lia
      |unfold full_span_of, span_of, ze, tlen; psimp; lia
      |unfold locs; psimp; repeat apply conj; try apply loc_none; try discriminate;
       try exact Lpin; intros v Hv; apply (G _ _ Hv)].
  Qed.

  Lemma journal_meta i t :
    nth_error words i = Some (T t) ->
    own text (add_journal_metadata search MAXC D highest (blank CFullJournal t i) words).
  Proof.
    intros Hn. pose proof (twf _ _ Hn) as Hwf. pose proof Hwf as (W1 & W2 & W3).
    unfold add_journal_metadata. psimp. unfold span_of. psimp.
    set (w := window_fwd MAXC words (S i) [] true).
    destruct (search PPostJournal w) as [m|] eqn:Es; [|apply blank_meta; exact Hwf].
    pose proof (fwd_end _ _ _ _ _ Hn Es) as Hend.
    assert (G : forall name s, mget m w name = Some s ->
                infix s (slice text (t_end t) (t_end t + m_end m))).
    { intros name s Hs. destruct (fwd_group _ _ _ _ _ _ _ Hn Es Hs) as (a & b & _ & -> & Hab & Hb & _).
      eapply infix_widen; [| |apply infix_refl]; lia. }
    assert (Lpin : loc text (t_end t) (t_end t + m_end m) (clean_pin_or_none (mget m w g_pin_cite))).
    { intros v Hv. destruct (clean_pin_or_none_some _ _ Hv) as (s0 & Hs0 & -> & _).
      eapply infix_trans; [apply strip_infix|apply (G _ _ Hs0)]. }
    cbv zeta.
    destruct (truthy_o (mget m w g_year)).
    all: apply locs_own with (lo := t_end t) (hi := (t_end t + m_end m)%nat);
      [unfold full_span_of, span_of, zs; psimp; lia
      |unfold full_span_of, span_of, ze, tlen; psimp; lia
      |unfold locs; psimp; repeat apply conj; try apply loc_none; try discriminate;
       try exact Lpin; intros v Hv; apply (G _ _ Hv)].
  Qed.

  (* ---------- add_post_citation ---------- *)
  Lemma pp_firstn r p : process_parenthetical search (Some r) = Some p ->
    p = firstn (length p) r /\ (length p <= length r)%nat.
  Proof.
    unfold process_parenthetical.
    assert (Hk : forall k, firstn (length (firstn k r)) r = firstn k r /\
                           (length (firstn k r) <= length r)%nat).
    { intros k. rewrite firstn_length. split; [|lia].
      destruct (Nat.le_gt_cases k (length r)) as [Hle|Hgt].
      - rewrite Nat.min_l by exact Hle. reflexivity.
      - rewrite Nat.min_r by lia. rewrite firstn_all, firstn_all2 by lia. reflexivity. }
    destruct (paren_cut r 0 0) as [k|].
    - intros H. apply or_none_some in H. subst p. destruct (Hk k) as [H1 H2]. split; [symmetry; exact H1|exact H2].
    - destruct (search PYearMatch r); [discriminate|].
      intros H. apply or_none_some in H. subst p. rewrite firstn_all. split; [reflexivity|lia].
  Qed.

  Lemma post_meta i t :
    nth_error words i = Some (T t) ->
    let c := add_post_citation search MAXC D highest is_space (blank CFullCase t i) words in
    exists fe : nat, snd (full_span_of c) = Z.of_nat fe /\ (t_end t <= fe)%nat /\ (fe <= length text)%nat /\
       locs text (t_end t) fe c /\ p_plaintiff c = None /\ p_defendant c = None.
  Proof.
    intros Hn. destruct (twf _ _ Hn) as (W1 & W2 & W3).
    unfold add_post_citation. psimp. unfold span_of. psimp.
    set (w := window_fwd MAXC words (S i) [] false).
    destruct (search PPostFull w) as [m|] eqn:Es.
    2:{ cbv zeta. exists (t_end t). unfold full_span_of, span_of. psimp.
        split; [reflexivity|]. split; [lia|]. split; [lia|].
        split; [|split; reflexivity]. unfold locs; psimp.
        repeat apply conj; try apply loc_none. intros _. apply loc_none. }
    pose proof (fwd_end _ _ _ _ _ Hn Es) as Hend.
    destruct (Hsearch _ _ _ Es) as (_ & _ & _ & _ & Hpar & _). specialize (Hpar eq_refl).
    assert (G : forall name s, mget m w name = Some s ->
              exists a b, gspan name (m_groups m) = Some (a, b) /\
                s = slice text (t_end t + a) (t_end t + b) /\
                (a <= b)%nat /\ (b <= m_end m)%nat /\ (t_end t + m_end m <= length text)%nat).
    { intros name s Hs. eapply fwd_group; eassumption. }
    cbv zeta.
    remember (mget m w g_parenthetical) as rawpar eqn:Er.
    remember (process_parenthetical search rawpar) as par eqn:Ep.
    remember (match rawpar with
               | Some r => match par with
                           | Some p0 => if negb (ze t + Z.of_nat (m_end m) =? 0) && (zlen p0 <? zlen r)
                                        then ze t + Z.of_nat (m_end m) - (zlen r - zlen p0)
                                        else ze t + Z.of_nat (m_end m)
                           | None => ze t + Z.of_nat (m_end m)
                           end
               | None => ze t + Z.of_nat (m_end m)
               end) as fe eqn:Efe.
    assert (HK : exists K : nat, (K <= m_end m)%nat /\ fe = ze t + Z.of_nat K /\
              loc text (t_end t) (t_end t + K) par /\
              forall name s, str_eqb name g_parenthetical = false -> mget m w name = Some s ->
                             infix s (slice text (t_end t) (t_end t + K))).
    { assert (Hfull : forall name s, mget m w name = Some s ->
                infix s (slice text (t_end t) (t_end t + m_end m))).
      { intros name s Hs. destruct (G _ _ Hs) as (a & b & _ & -> & Hab & Hb & _).
        eapply infix_widen; [| |apply infix_refl]; lia. }
      assert (Hdefault : fe = ze t + Z.of_nat (m_end m) ->
                exists K : nat, (K <= m_end m)%nat /\ fe = ze t + Z.of_nat K /\
                  loc text (t_end t) (t_end t + K) par /\
                  forall name s, str_eqb name g_parenthetical = false -> mget m w name = Some s ->
                                 infix s (slice text (t_end t) (t_end t + K))).
      { intros Hfe. exists (m_end m). split; [lia|]. split; [exact Hfe|]. split.
        - intros p Hp. rewrite Ep in Hp. destruct rawpar as [r|]; [|discriminate Hp].
          destruct (pp_firstn _ _ Hp) as [Hpf _]. rewrite Hpf.
          eapply infix_trans; [apply firstn_infix|]. apply (Hfull g_parenthetical). symmetry. exact Er.
        - intros name s _ Hs. apply (Hfull _ _ Hs). }
      destruct rawpar as [r|]; [|apply Hdefault; exact Efe].
      destruct par as [p|]; [|apply Hdefault; exact Efe].
      destruct (negb (ze t + Z.of_nat (m_end m) =? 0) && (zlen p <? zlen r)) eqn:Ec;
        [|apply Hdefault; exact Efe].
      apply andb_true_iff in Ec. destruct Ec as [_ Ec]. apply Z.ltb_lt in Ec.
      symmetry in Er, Ep.
      destruct (G _ _ Er) as (a & b & Hg & Hr & Hab & Hb & _).
      destruct (Hpar a b Hg) as (Hlt & Hothers).
      destruct (pp_firstn _ _ Ep) as [Hpf Hpl].
      assert (Hlr : length r = (b - a)%nat) by (rewrite Hr, slice_length by lia; lia).
      unfold zlen in *. set (lp := length p) in *. clearbody lp.
      exists (m_end m - ((b - a) - lp))%nat.
      split; [lia|]. split; [lia|]. split.
      - intros p' [= <-]. rewrite Hpf, Hr, firstn_slice by lia.
        eapply infix_widen; [| |apply infix_refl]; lia.
      - intros name s Hne Hs. destruct (G _ _ Hs) as (x & y & Hgxy & -> & Hxy & Hy & _).
        pose proof (Hothers name x y (gspan_key _ _ _ _ Hgxy) Hne).
        eapply infix_widen; [| |apply infix_refl]; lia. }
    destruct HK as (K & HK1 & HK2 & HK3 & HK4).
    assert (Lpin : loc text (t_end t) (t_end t + K) (clean_pin_or_none (mget m w g_pin_cite))).
    { intros v Hv. destruct (clean_pin_or_none_some _ _ Hv) as (s0 & Hs0 & -> & _).
      eapply infix_trans; [apply strip_infix|apply (HK4 g_pin_cite _ eq_refl Hs0)]. }
    assert (Lyear : loc text (t_end t) (t_end t + K) (mget m w g_year)).
    { intros v Hv. apply (HK4 g_year _ eq_refl Hv). }
    assert (Lextra : loc text (t_end t) (t_end t + K)
                       match mget m w g_extra with
                       | Some e => or_none (strip is_space e)
                       | None => None
                       end).
    { intros v Hv. destruct (mget m w g_extra) as [e|] eqn:Ee; [|discriminate Hv].
      apply or_none_some in Hv. subst v.
      eapply infix_trans; [apply strip_infix|apply (HK4 g_extra _ eq_refl Ee)]. }
    clear Efe Ep Er.
    exists (t_end t + K)%nat.
    destruct (truthy_o (mget m w g_court)); destruct (truthy_o (mget m w g_year));
      destruct (truthy_o (mget m w g_pin_cite)).
    all: unfold full_span_of, span_of; psimp.
    all: (split; [rewrite HK2; unfold ze; lia|]).
    all: (split; [lia|]).
    all: (split; [lia|]).
    all: (split; [|split; reflexivity]).
    all: unfold locs; psimp; repeat apply conj; try apply loc_none; try assumption.
    all: intros _; assumption.
  Qed.

  (* ---------- add_defendant ---------- *)
  Lemma def_scan_meta i : (i <= length words)%nat ->
    forall ws k mm offset si off pl,
      ws = firstn mm (rev (firstn k words)) -> (k <= i)%nat ->
      offset = Z.of_nat (pos words i) - Z.of_nat (pos words k) ->
      def_scan words ws (Nat.pred k) offset = Ok (Some (si, off, pl)) ->
      exists fs : nat, Z.of_nat (pos words i) - off = Z.of_nat fs /\ (si <= i)%nat /\
        (fs <= pos words si)%nat /\ loc text fs (pos words i) pl.
  Proof.
    intros Hi. induction ws as [|e r IH]; intros k mm offset si off pl Hws Hk Hoff Hd.
    - cbn [def_scan] in Hd. discriminate Hd.
    - destruct mm as [|mm']; [discriminate Hws|].
      destruct (rev (firstn k words)) as [|x rest] eqn:Er; [discriminate Hws|].
      cbn [firstn] in Hws. injection Hws as -> ->.
      assert (Hkl : (k <= length words)%nat) by lia.
      destruct (rev_firstn_cons words _ _ _ Hkl Er) as (idx & -> & Hx & ->).
      cbn [Nat.pred] in Hd.
      pose proof (pos_S _ _ _ Hx) as HpS.
      pose proof (pos_mono words idx i ltac:(lia)) as Hm1.
      pose proof (pos_mono words (S idx) i ltac:(lia)) as Hm0.
      pose proof (pos_mono words (idx - 2) idx ltac:(lia)) as Hm2.
      pose proof (pos_le_text _ _ i Hstream) as Hil.
      assert (Hrec : forall si off pl,
                def_scan words (firstn mm' (rev (firstn idx words))) (Nat.pred idx)
                         (offset + zlen (elem_str x)) = Ok (Some (si, off, pl)) ->
                exists fs : nat, Z.of_nat (pos words i) - off = Z.of_nat fs /\ (si <= i)%nat /\
                  (fs <= pos words si)%nat /\ loc text fs (pos words i) pl).
      { intros si' off' pl' H'. eapply (IH idx mm'); [reflexivity|lia| |exact H'].
        unfold zlen. lia. }
      cbn [def_scan] in Hd.
      destruct x as [s|t].
      + destruct s as [|c [|c' s']].
        * destruct (ends_with SEMI []); [discriminate Hd|]. eapply Hrec; exact Hd.
        * destruct (N.eqb c COMMA); [eapply Hrec; exact Hd|].
          destruct (N.eqb c SEMI); [discriminate Hd|]. eapply Hrec; exact Hd.
        * destruct (ends_with SEMI (c :: c' :: s')); [discriminate Hd|]. eapply Hrec; exact Hd.
      + destruct (kind_eqb (t_kind t) KStopWord).
        * destruct (glookup g_stop_word (t_groups t)) as [v|]; [|discriminate Hd].
          destruct (ostr_eqb v (Some s_v) && (0 <? idx)%nat).
          -- injection Hd as <- <- <-.
             change (join_elems (slice words (idx - 2) idx))
               with (stream_text (slice words (idx - 2) idx)).
             rewrite (stream_slice _ _ _ _ Hstream) by lia.
             set (joined := slice text (pos words (idx - 2)) (pos words idx)).
             destruct (lstrip_suffix (in_chars [LPAR; SP]) joined) as [h Hh].
             destruct (suffix_of_slice text h _ _ _ Hm2 ltac:(lia) Hh) as (HL & HL1 & HL2).
             set (L := lstrip (in_chars [LPAR; SP]) joined) in *.
             cbn [elem_str] in *. unfold zlen in *.
             set (nL := length L) in *. clearbody nL.
             exists (pos words idx - nL)%nat.
             split; [lia|]. split; [lia|]. split; [lia|].
             intros p [= <-].
             eapply infix_trans; [apply strip_infix_lstrip|]. fold L. rewrite HL.
             eapply infix_widen; [| |apply infix_refl]; lia.
          -- injection Hd as <- <- <-. exists (pos words (S idx)).
             cbn [elem_str] in *. unfold zlen in *.
             split; [lia|]. split; [lia|]. split; [lia|apply loc_none].
        * destruct (ends_with SEMI (t_data t)); [discriminate Hd|]. eapply Hrec; exact Hd.
  Qed.

  Hypothesis Hdefyear : defyear_ok_w Wd search.

  Lemma defendant_meta i t c c' fe :
    nth_error words i = Some (T t) -> shape t i c -> p_full_start c = None ->
    (t_end t <= fe)%nat ->
    locs text (t_end t) fe c ->
    add_defendant search BACK D highest is_space c words = Ok c' ->
    exists fs : nat, (fs <= t_start t)%nat /\ fst (full_span_of c') = Z.of_nat fs /\
      locs text fs fe c' /\
      ((truthy_o (p_plaintiff c') || truthy_o (p_defendant c')) = false ->
       locs text (t_start t) fe c').
  Proof.
    intros Hn (S1 & S2 & S3 & S4 & S5) Hfs0 Hfe Hlocs Hd.
    destruct (pos_token _ _ _ _ Hstream Hn) as (Hp0 & _ & _).
    destruct (twf _ _ Hn) as (W1 & W2 & W3).
    pose proof (locs_widen text (t_end t) fe (t_start t) fe c ltac:(lia) ltac:(lia) Hlocs) as Hl2.
    assert (Hss : fst (span_of c) = zs t).
    { unfold span_of. rewrite S4, S1. reflexivity. }
    unfold add_defendant in Hd. rewrite S2 in Hd.
    destruct (def_scan words (firstn (BACK - 1) (rev (firstn i words))) (Nat.pred i) 0)
      as [[[[si off] pl]|]|] eqn:Eds; cbn [bind] in Hd; [| |discriminate Hd].
    2:{ injection Hd as <-. exists (t_start t). split; [lia|].
        split; [unfold full_span_of; rewrite Hfs0; exact Hss|].
        split; [exact Hl2|]. intros _; exact Hl2. }
    destruct (def_scan_meta i (Nat.lt_le_incl _ _ (index_lt words _ _ Hn)) _ i (BACK - 1)%nat 0
                _ _ _ eq_refl (le_n _) ltac:(lia) Eds) as (fs & Hfs & Hsi & Hfsp & Lpl).
    rewrite Hp0 in *.
    pose proof (pos_mono words si i Hsi) as Hmsi. rewrite Hp0 in Hmsi.
    rewrite Hss in Hd.
    change (join_elems (slice words si i)) with (stream_text (slice words si i)) in Hd.
    rewrite (stream_slice _ _ _ _ Hstream Hsi) in Hd. rewrite Hp0 in Hd.
    set (dstr := strip (in_chars [COMMA; SP; LPAR]) (slice text (pos words si) (t_start t))) in *.
    assert (Ldef : infix dstr (slice text fs (t_start t))).
    { eapply infix_trans; [apply strip_infix|]. eapply infix_widen; [| |apply infix_refl]; lia. }
    pose proof (locs_widen text (t_end t) fe fs fe c ltac:(lia) ltac:(lia) Hlocs) as Hl1.
    destruct Hl1 as (A1 & A2 & A3 & A4 & A5 & A6 & A7 & A8 & A9 & A10 & A11).
    destruct Hl2 as (B1 & B2 & B3 & B4 & B5 & B6 & B7 & B8 & B9 & B10 & B11).
    assert (Lp : loc text fs fe pl) by (eapply loc_widen; [| |exact Lpl]; lia).
    assert (LD : loc text fs fe (Some dstr)).
    { apply loc_some. eapply infix_widen; [| |exact Ldef]; lia. }
    assert (Lg : forall m name, loc text fs fe (mget m dstr name)).
    { intros m name v Hv. apply mget_infix in Hv.
      eapply infix_trans; [exact Hv|]. eapply infix_widen; [| |exact Ldef]; lia. }
    assert (Hfsz : zs t - off = Z.of_nat fs) by (unfold zs; exact Hfs).
    exists fs. split; [lia|].
    destruct (nonempty (strip is_space dstr)) eqn:Ene.
    - assert (Hdne : truthy_o (Some dstr) = true).
      { destruct dstr; [discriminate Ene|reflexivity]. }
      destruct (search PDefYear dstr) as [m|] eqn:Em.
      + pose proof (Lg m g_defendant) as Ld. pose proof (Lg m g_year) as Ly.
        assert (HWdd : Wd dstr).
        { destruct dstr as [|c0 r0] eqn:Edstr; [discriminate Ene|].
          apply (HWd (c0 :: r0) c0 r0); [|reflexivity|].
          - eapply infix_trans; [exact Ldef|]. unfold slice.
            exists (firstn fs text), (skipn (t_start t - fs) (skipn fs text)).
            rewrite <- (firstn_skipn fs text) at 1. f_equal.
            symmetry. apply firstn_skipn.
          - exact (strip_head _ _ _ _ Edstr). }
        pose proof (Hdefyear _ _ HWdd Em) as Hdy.
        destruct pl as [p|]; injection Hd as <-.
        all: (split; [unfold full_span_of; psimp; exact Hfsz|]).
        all: (split; [unfold locs; psimp; repeat apply conj; assumption|]).
        all: psimp; intros Hf; apply orb_false_iff in Hf; destruct Hf as [F1 F2].
        all: unfold locs; psimp; repeat apply conj; try assumption;
          try (apply loc_falsy; assumption).
        all: destruct (truthy_o (mget m dstr g_year)) eqn:Ety;
          [rewrite (Hdy eq_refl) in F2; discriminate F2|apply loc_falsy; exact Ety].
      + destruct pl as [p|]; injection Hd as <-.
        all: (split; [unfold full_span_of; psimp; exact Hfsz|]).
        all: (split; [unfold locs; psimp; repeat apply conj; assumption|]).
        all: psimp; intros Hf; apply orb_false_iff in Hf; destruct Hf as [F1 F2].
        all: rewrite Hdne in F2; discriminate F2.
    - destruct pl as [p|]; injection Hd as <-.
      all: (split; [unfold full_span_of; psimp; exact Hfsz|]).
      all: (split; [unfold locs; psimp; repeat apply conj; assumption|]).
      all: psimp; intros Hf; apply orb_false_iff in Hf; destruct Hf as [F1 F2].
      all: unfold locs; psimp; repeat apply conj; try assumption;
        try (apply loc_falsy; assumption).
  Qed.

  (* ---------- add_pre_citation ---------- *)
  Lemma pre_meta i t c fe lo :
    nth_error words i = Some (T t) -> shape t i c ->
    (lo <= t_start t)%nat -> (t_end t <= fe)%nat -> fst (full_span_of c) = Z.of_nat lo ->
    locs text lo fe c ->
    ((truthy_o (p_plaintiff c) || truthy_o (p_defendant c)) = false -> locs text (t_start t) fe c) ->
    let c' := add_pre_citation search MAXC c words in
    exists fs : nat, (fs <= t_start t)%nat /\ fst (full_span_of c') = Z.of_nat fs /\
      locs text fs fe c' /\ p_full_end c' = p_full_end c.
  Proof.
    intros Hn (S1 & S2 & S3 & S4 & S5) Hlo Hfe Hfst Hlocs Hfalsy. cbv zeta.
    unfold add_pre_citation.
    destruct (truthy_o (p_plaintiff c) || truthy_o (p_defendant c)) eqn:Et.
    { exists lo. auto. }
    specialize (Hfalsy eq_refl).
    rewrite S2. set (w := window_bwd MAXC words i true).
    destruct (search PPreFull w) as [m|] eqn:Es; [|exists lo; auto].
    destruct (twf _ _ Hn) as (W1 & W2 & W3).
    destruct (bwd_len _ _ _ _ Hn Es) as (B1 & B2).
    assert (Hss : fst (span_of c) = zs t) by (unfold span_of; rewrite S4, S1; reflexivity).
    rewrite Hss.
    set (fs := (t_start t - (m_end m - m_start m))%nat).
    assert (G : forall name s, mget m w name = Some s -> infix s (slice text fs (t_start t))).
    { intros name s Hs.
      destruct (bwd_group i t PPreFull m _ _ Hn eq_refl Es Hs) as (lo' & hi' & -> & G1 & G2 & G3).
      eapply infix_widen; [| |apply infix_refl]; unfold fs; lia. }
    assert (Lpin : loc text fs fe (clean_pin_or_none (mget m w g_pin_cite))).
    { intros v Hv. destruct (clean_pin_or_none_some _ _ Hv) as (s0 & Hs0 & -> & _).
      eapply infix_trans; [apply strip_infix|].
      eapply infix_widen; [| |apply (G _ _ Hs0)]; lia. }
    assert (Lante : loc text fs fe (mget m w g_antecedent)).
    { intros v Hv. eapply infix_widen; [| |apply (G _ _ Hv)]; lia. }
    pose proof (locs_widen text (t_start t) fe fs fe c ltac:(unfold fs; lia) ltac:(lia) Hfalsy) as Hl.
    destruct Hl as (A1 & A2 & A3 & A4 & A5 & A6 & A7 & A8 & A9 & A10 & A11).
    exists fs. split; [unfold fs; lia|].
    assert (Hz : zs t - (Z.of_nat (m_end m) - Z.of_nat (m_start m)) = Z.of_nat fs)
      by (unfold zs, fs; lia).
    destruct (truthy_o (mget m w g_pin_cite)).
    all: (split; [unfold full_span_of; psimp; exact Hz|]).
    all: (split; [|reflexivity]).
    all: unfold locs; psimp; repeat apply conj; assumption.
  Qed.

  (* ---------- _extract_full_citation ---------- *)
  Lemma full_meta i t c :
    nth_error words i = Some (T t) ->
    extract_full search MAXC BACK D highest this_year edition_of source_of is_space words i t = Ok c ->
    own text c.
  Proof.
    intros Hn He. unfold extract_full in He.
    destruct (full_class source_of t) as [cl|] eqn:Ec; [|discriminate He].
    cbn [bind] in He.
    destruct (full_class_cases _ _ _ Ec) as [->|[->| ->]].
    - destruct (post_ok search MAXC D highest is_space text words Wok Hstream Hsearch i t Hn)
        as (_ & Hsh & Hfs0 & _).
      destruct (post_meta i t Hn) as (fe & Hfe & Hfe1 & Hfe2 & Hlocs & _ & _).
      cbv zeta in *.
      set (c1 := add_post_citation search MAXC D highest is_space (blank CFullCase t i) words) in *.
      destruct (add_defendant search BACK D highest is_space c1 words) as [c2|] eqn:Ed;
        [|discriminate He].
      cbn [bind] in He. injection He as <-.
      destruct (defendant_ok search BACK D highest is_space text words Hstream _ _ _ _ Hn Hsh Ed)
        as (Hsh2 & D1 & _).
      destruct (defendant_meta _ _ _ _ _ Hn Hsh Hfs0 Hfe1 Hlocs Ed) as (fs2 & Hfs2 & Hfst2 & Hl2 & Hfalsy2).
      destruct (pre_meta _ _ _ _ _ Hn Hsh2 Hfs2 Hfe1 Hfst2 Hl2 Hfalsy2) as (fs3 & Hfs3 & Hfst3 & Hl3 & P1).
      pose proof (pre_shape search MAXC words _ _ _ Hsh2) as Hsh3.
      set (c3 := add_pre_citation search MAXC c2 words) in *.
      destruct (twf _ _ Hn) as (W1 & W2 & W3).
      assert (Hsnd : snd (full_span_of c3) = Z.of_nat fe).
      { destruct Hsh as (S1 & S2 & S3 & S4 & S5). destruct Hsh3 as (T1 & T2 & T3 & T4 & T5).
        unfold full_span_of, span_of in *. cbn [fst snd] in *.
        rewrite P1, D1, T5, T1. rewrite S5, S1 in Hfe. exact Hfe. }
      apply locs_own with (lo := fs3) (hi := fe).
      + change (full_span_of (with_guess this_year edition_of c3)) with (full_span_of c3).
        rewrite Hfst3. lia.
      + change (full_span_of (with_guess this_year edition_of c3)) with (full_span_of c3).
        rewrite Hsnd. unfold tlen. lia.
      + exact Hl3.
    - injection He as <-.
      pose proof (law_meta i t Hn) as H. exact H.
    - injection He as <-.
      pose proof (journal_meta i t Hn) as H. exact H.
  Qed.

  (* ---------- reference citations ---------- *)
  Lemma lookup_name_In k gd v : lookup_name k gd = Some v -> In (k, Some v) gd.
  Proof.
    unfold lookup_name. destruct (glookup k gd) as [o|] eqn:E; [|discriminate].
    intros ->. apply glookup_In, E.
  Qed.

  Lemma references_meta c :
    refs_ok refsearch -> offsets_ok text c ->
    Forall (own text) (references refsearch valid_name text c).
  Proof.
    intros Hrefs Hoff. unfold references.
    destruct (Z.leb_spec (zlen text) (snd (span_of c))) as [Hle|Hlt]; [constructor|].
    destruct (p_cls c); try constructor.
    match goal with |- context [match ?l with [] => [] | _ :: _ => _ end] =>
      destruct l as [|nm names'] eqn:En; [constructor|] end.
    unfold offsets_ok in Hoff. cbv zeta in Hoff.
    destruct Hoff as (O1 & O2 & O3 & O4 & O5 & _).
    set (se := snd (span_of c)) in *.
    assert (Hse : 0 <= se <= tlen text) by (unfold tlen; lia).
    unfold zlen, tlen in *.
    set (se' := Z.to_nat se).
    assert (Hrest : pyslice text se (Z.of_nat (length text)) = slice text se' (length text)).
    { rewrite pyslice_in by lia. rewrite Nat2Z.id. reflexivity. }
    rewrite Hrest.
    set (rest := slice text se' (length text)).
    assert (Hrl : length rest = (length text - se')%nat).
    { unfold rest. apply slice_length; lia. }
    apply Forall_forall. intros x Hin. apply in_map_iff in Hin.
    destruct Hin as ([[a b] gd] & <- & Hin).
    destruct (Hrefs _ _ _ _ _ Hin) as (Hab & Hb & Hgd).
    replace (Z.to_nat (se + Z.of_nat a)) with (se' + a)%nat by lia.
    replace (Z.to_nat (se + Z.of_nat b)) with (se' + b)%nat by lia.
    assert (Hsl : slice rest a b = slice text (se' + a) (se' + b)).
    { unfold rest. apply slice_slice. lia. }
    assert (G : forall k, loc text (se' + a) (se' + b) (lookup_name k gd)).
    { intros k v Hv. rewrite <- Hsl. apply (Hgd k). apply lookup_name_In, Hv. }
    apply locs_own with (lo := (se' + a)%nat) (hi := (se' + b)%nat).
    - unfold full_span_of, span_of. psimp. lia.
    - unfold full_span_of, span_of, tlen. psimp. lia.
    - unfold locs. psimp. repeat apply conj; try apply loc_none; try discriminate; apply G.
  Qed.

  (* ---------- the loop ---------- *)
  Lemma own_meta_ok l c : own text c -> meta_ok text l c.
  Proof. intros H v Hv. left. apply H, Hv. Qed.

  Lemma meta_ok_mono l l' c : (forall d, In d l -> In d l') -> meta_ok text l c -> meta_ok text l' c.
  Proof.
    intros Hl H v Hv. destruct (H v Hv) as [Hi|(Hc & d & Hd & Hrest)]; [left; exact Hi|].
    right. split; [exact Hc|]. exists d. split; [apply Hl, Hd|exact Hrest].
  Qed.

  Lemma is_full_case_cls c : is_full_case c = true -> p_cls c = CFullCase.
  Proof. unfold is_full_case. destruct (p_cls c); try discriminate. reflexivity. Qed.

  Lemma parallel_meta l c0 pre :
    In pre l -> is_full_case c0 && is_full_case pre = true ->
    own text c0 -> meta_ok text l pre -> meta_ok text l (parallel c0 pre).
  Proof.
    intros Hin Hfc Hown Hpre. apply andb_true_iff in Hfc. destruct Hfc as [Hc0 Hcp].
    apply is_full_case_cls in Hc0. apply is_full_case_cls in Hcp.
    unfold parallel. destruct (oz_eqb (p_full_start c0) (p_full_start pre)) eqn:Eo;
      [|apply own_meta_ok, Hown].
    unfold oz_eqb in Eo.
    destruct (p_full_start c0) as [x|] eqn:Ex; [|discriminate Eo].
    destruct (p_full_start pre) as [y|] eqn:Ey; [|discriminate Eo].
    apply Z.eqb_eq in Eo. subst y.
    set (c := set_year (p_year pre) (set_year_s (p_year_s pre)
                (set_plaintiff (p_plaintiff pre) (set_defendant (p_defendant pre) c0)))).
    assert (Hkeep : forall v, In (Some v) (text_fields c0) -> inside text c v).
    { intros v Hv. apply (Hown v Hv). }
    assert (Hdon : forall v, In (Some v) (text_fields pre) ->
              inside text c v \/
              (p_cls c = CFullCase /\
               exists d, In d l /\ p_cls d = CFullCase /\ p_full_start d <> None /\
                         p_full_start d = p_full_start c /\ inside text d v)).
    { intros v Hv. right. split; [exact Hc0|].
      destruct (Hpre v Hv) as [Hi|(_ & d & Hd & Hdc & Hdn & Hds & Hdi)].
      - exists pre. split; [exact Hin|]. split; [exact Hcp|]. split; [rewrite Ey; discriminate|].
        split; [|exact Hi]. unfold c. psimp. rewrite Ex, Ey. reflexivity.
      - exists d. split; [exact Hd|]. split; [exact Hdc|]. split; [exact Hdn|].
        split; [|exact Hdi]. unfold c. psimp. rewrite Hds, Ex, Ey. reflexivity. }
    intros v Hv. unfold text_fields in Hv. unfold c in Hv. psimp_in Hv. cbn [In] in Hv.
    unfold text_fields in Hkeep, Hdon. cbn [In] in Hkeep, Hdon.
    destruct Hv as [H|[H|[H|[H|[H|[H|[H|[H|[H|[H|[H|[]]]]]]]]]]]].
    - left. apply Hkeep. auto.
    - apply Hdon. auto.
    - apply Hdon. auto 6.
    - apply Hdon. auto 6.
    - left. apply Hkeep. auto 8.
    - left. apply Hkeep. auto 8.
    - left. apply Hkeep. auto 10.
    - left. apply Hkeep. auto 10.
    - left. apply Hkeep. auto 12.
    - left. apply Hkeep. auto 12.
    - left. apply Hkeep. do 10 right. left. exact H.
  Qed.

  Hypothesis Htoks : toks_ok source_of words.
  Hypothesis Hrefs : refs_ok refsearch.

  Definition minv (acc : list pcit) : Prop := Forall (meta_ok text acc) acc.

  Lemma minv_cons acc c : minv acc -> meta_ok text acc c -> minv (c :: acc).
  Proof.
    intros Hacc Hc. constructor.
    - eapply meta_ok_mono; [|exact Hc]. intros d Hd. right. exact Hd.
    - eapply Forall_impl; [|exact Hacc]. intros a Ha.
      eapply meta_ok_mono; [|exact Ha]. intros d Hd. right. exact Hd.
  Qed.

  Lemma cite_step_meta acc i t acc' :
    nth_error words i = Some (T t) ->
    minv acc ->
    cite_step search refsearch MAXC BACK D highest this_year edition_of source_of valid_name is_space
              text words acc (i, t) = Ok acc' ->
    minv acc'.
  Proof.
    intros Hn Hacc Hs. unfold cite_step in Hs.
    destruct (t_kind t) eqn:Ek.
    - destruct (t_short t) eqn:Esh.
      + destruct (extract_short _ _ _ _ _ _ _ _) as [c|] eqn:Ee; [|discriminate Hs].
        cbn [bind] in Hs. injection Hs as <-. apply minv_cons; [exact Hacc|].
        apply own_meta_ok. eapply short_meta; eauto.
      + destruct (extract_full _ _ _ _ _ _ _ _ _ _ _ _) as [c0|] eqn:Ee; [|discriminate Hs].
        cbn [bind] in Hs. injection Hs as <-.
        pose proof (inv_offsets_ok _ _ (full_ok search MAXC BACK D highest this_year edition_of
                      source_of is_space text words Wok Hstream Hsearch HWok _ _ _ Hn Ee)) as H0.
        pose proof (full_meta _ _ _ Hn Ee) as Hown.
        match goal with |- minv (?c :: _) => set (cc := c) end.
        assert (Hoffc : offsets_ok text cc).
        { unfold cc. destruct acc as [|pre acc0]; [exact H0|].
          destruct (is_full_case c0 && is_full_case pre); [|exact H0].
          apply (same_off_offsets_ok _ _ _ (parallel_same _ _) H0). }
        assert (Hmc : meta_ok text acc cc).
        { unfold cc. destruct acc as [|pre acc0]; [apply own_meta_ok, Hown|].
          destruct (is_full_case c0 && is_full_case pre) eqn:Efc; [|apply own_meta_ok, Hown].
          apply parallel_meta; [left; reflexivity|exact Efc|exact Hown|].
          inversion Hacc; assumption. }
        clearbody cc.
        pose proof (references_meta cc Hrefs Hoffc) as Hr.
        constructor.
        * eapply meta_ok_mono; [|exact Hmc]. intros d Hd. right. apply in_or_app. right. exact Hd.
        * apply Forall_app. split.
          -- apply Forall_rev. eapply Forall_impl; [|exact Hr]. intros a Ha. apply own_meta_ok, Ha.
          -- eapply Forall_impl; [|exact Hacc]. intros a Ha.
             eapply meta_ok_mono; [|exact Ha]. intros d Hd. right. apply in_or_app. right. exact Hd.
    - injection Hs as <-. apply minv_cons; [exact Hacc|].
      apply own_meta_ok, blank_meta. apply (twf _ _ Hn).
    - destruct (extract_supra _ _ _ _ _) as [c|] eqn:Ee; [|discriminate Hs].
      cbn [bind] in Hs. injection Hs as <-. apply minv_cons; [exact Hacc|].
      apply own_meta_ok. eapply supra_meta; eauto.
    - destruct (extract_id _ _ _ _ _) as [c|] eqn:Ee; [|discriminate Hs].
      cbn [bind] in Hs. injection Hs as <-. apply minv_cons; [exact Hacc|].
      apply own_meta_ok. eapply id_meta; eauto.
    - injection Hs as <-. exact Hacc.
    - injection Hs as <-. exact Hacc.
    - injection Hs as <-. exact Hacc.
  Qed.

  Lemma cite_run_meta its : forall acc acc',
    (forall i t, In (i, t) its -> nth_error words i = Some (T t)) ->
    minv acc ->
    cite_run search refsearch MAXC BACK D highest this_year edition_of source_of valid_name is_space
             text words acc its = Ok acc' ->
    minv acc'.
  Proof.
    induction its as [|[i t] its IH]; intros acc acc' Hin Hacc Hr; cbn [cite_run] in Hr.
    - injection Hr as <-. exact Hacc.
    - destruct (cite_step _ _ _ _ _ _ _ _ _ _ _ _ _ acc (i, t)) as [acc1|] eqn:Es; [|discriminate Hr].
      cbn [bind] in Hr. eapply IH; [|eapply cite_step_meta|exact Hr].
      + intros i' t' H'. apply Hin. right. exact H'.
      + apply Hin. left. reflexivity.
      + exact Hacc.
      + exact Es.
  Qed.

  (* ------------------------------------------------------------------ *)
  (* survival of non-reference citations (ordered, non-empty tokens)     *)
  (* ------------------------------------------------------------------ *)

  Definition tokc (t : tok) (c : pcit) : Prop :=
    p_tok c = t /\ p_span_start c = None /\ is_ref c = false.

  Lemma short_tok i t c :
    extract_short search MAXC this_year edition_of is_space words i t = Ok c -> tokc t c.
  Proof.
    intros He. unfold extract_short in He.
    match type of He with bind ?x _ = _ => destruct x as [[]|]; [|discriminate He] end.
    cbn [bind] in He.
    destruct (glookup g_page (t_groups t)) as [prefix|]; [|discriminate He].
    cbv zeta in He.
    destruct (extract_pin_cite search MAXC words i (ze t) _) as [[[pin se] par]|];
      [|discriminate He].
    cbn [bind] in He. injection He as <-. unfold tokc, is_ref. psimp. auto.
  Qed.

  Lemma supra_tok i t c : extract_supra search MAXC words i t = Ok c -> tokc t c.
  Proof.
    intros He. unfold extract_supra in He.
    destruct (extract_pin_cite search MAXC words i (ze t) (Some [])) as [[[pin se] par]|];
      [|discriminate He].
    cbn [bind] in He. injection He as <-. unfold tokc, is_ref. psimp. auto.
  Qed.

  Lemma id_tok i t c : extract_id search MAXC words i t = Ok c -> tokc t c.
  Proof.
    intros He. unfold extract_id in He.
    destruct (extract_pin_cite search MAXC words i (ze t) (Some [])) as [[[pin se] par]|];
      [|discriminate He].
    cbn [bind] in He. injection He as <-. unfold tokc, is_ref. psimp. auto.
  Qed.

  Lemma full_tok i t c :
    nth_error words i = Some (T t) ->
    extract_full search MAXC BACK D highest this_year edition_of source_of is_space words i t = Ok c ->
    tokc t c.
  Proof.
    intros Hn He. unfold extract_full in He.
    destruct (full_class source_of t) as [cl|] eqn:Ec; [|discriminate He].
    cbn [bind] in He.
    destruct (full_class_cases _ _ _ Ec) as [->|[->| ->]].
    - destruct (post_ok search MAXC D highest is_space text words Wok Hstream Hsearch i t Hn)
        as (_ & Hsh & _). cbv zeta in Hsh.
      destruct (add_defendant _ _ _ _ _ _ _) as [c2|] eqn:Ed; [|discriminate He].
      cbn [bind] in He. injection He as <-.
      destruct (defendant_ok search BACK D highest is_space text words Hstream _ _ _ _ Hn Hsh Ed)
        as (Hsh2 & _).
      destruct (pre_shape search MAXC words _ _ _ Hsh2) as (T1 & T2 & T3 & T4 & T5).
      unfold tokc, is_ref. psimp. rewrite T3. auto.
    - injection He as <-. unfold add_law_metadata.
      destruct (search PPostLaw _); [destruct (truthy_o _)|]; unfold tokc, is_ref; psimp; auto.
    - injection He as <-. unfold add_journal_metadata.
      destruct (search PPostJournal _); [destruct (truthy_o _)|]; unfold tokc, is_ref; psimp; auto.
  Qed.

  Lemma parallel_tok t c pre : tokc t c -> tokc t (parallel c pre).
  Proof.
    intros (H1 & H2 & H3). unfold parallel, tokc, is_ref in *.
    destruct (oz_eqb _ _); psimp; auto.
  Qed.

  (* every citation newer than a non-reference citation starts after that citation's token *)
  Fixpoint ord (acc : list pcit) : Prop :=
    match acc with
    | [] => True
    | x :: r => (forall e, In e r -> is_ref e = false -> ze (p_tok e) <= fst (span_of x)) /\ ord r
    end.

  Definition good (k : nat) (e : pcit) : Prop :=
    is_ref e = false ->
    fst (span_of e) = zs (p_tok e) /\ (t_start (p_tok e) < t_end (p_tok e))%nat /\
    (t_end (p_tok e) <= pos words k)%nat.

  Lemma good_mono k k' e : (k <= k')%nat -> good k e -> good k' e.
  Proof.
    intros Hk H Hr. destruct (H Hr) as (H1 & H2 & H3). split; [exact H1|]. split; [exact H2|].
    pose proof (pos_mono words k k' Hk). lia.
  Qed.

  Lemma ord_split l1 : forall d l2, ord (l1 ++ d :: l2) -> is_ref d = false ->
    forall x, In x l1 -> ze (p_tok d) <= fst (span_of x).
  Proof.
    induction l1 as [|y l1 IH]; intros d l2 Ho Hd x Hx; [destruct Hx|].
    cbn [app ord] in Ho. destruct Ho as [Hy Ho]. destruct Hx as [<-|Hx].
    - apply Hy; [|exact Hd]. apply in_or_app. right. left. reflexivity.
    - eapply IH; eassumption.
  Qed.

  Lemma ord_refs R : forall acc B,
    (forall x, In x R -> is_ref x = true /\ B <= fst (span_of x)) ->
    (forall e, In e acc -> is_ref e = false -> ze (p_tok e) <= B) ->
    ord acc -> ord (R ++ acc).
  Proof.
    induction R as [|x R IH]; intros acc B HR Hacc Ho; [exact Ho|].
    cbn [app ord]. split.
    - intros e He Hne. apply in_app_or in He. destruct He as [He|He].
      + destruct (HR e (or_intror He)) as [Ht _]. congruence.
      + destruct (HR x (or_introl eq_refl)) as [_ Hb]. specialize (Hacc e He Hne). lia.
    - apply (IH acc B); [|exact Hacc|exact Ho]. intros y Hy. apply HR. right. exact Hy.
  Qed.

  Lemma references_start c x :
    In x (references refsearch valid_name text c) ->
    is_ref x = true /\ snd (span_of c) <= fst (span_of x).
  Proof.
    unfold references. destruct (zlen text <=? snd (span_of c)); [intros []|].
    destruct (p_cls c); try (intros []).
    match goal with |- context [match ?l with [] => [] | _ :: _ => _ end] =>
      destruct l as [|nm names']; [intros []|] end.
    intros Hin. apply in_map_iff in Hin. destruct Hin as ([[a b] gd] & <- & _).
    unfold is_ref, span_of. psimp. split; [reflexivity|].
    destruct (p_span_end c); lia.
  Qed.

  Definition sinv (k : nat) (acc : list pcit) : Prop := ord acc /\ Forall (good k) acc.

  Lemma sinv_tok k acc j t c :
    (k <= j)%nat -> nth_error words j = Some (T t) -> (t_start t < t_end t)%nat ->
    tokc t c -> sinv k acc -> sinv (S j) (c :: acc).
  Proof.
    intros Hk Hn Hne (T1 & T2 & T3) (Ho & Hg).
    destruct (pos_token _ _ _ _ Hstream Hn) as (Hp0 & Hp1 & _).
    pose proof (pos_mono words k j Hk) as Hm.
    assert (Hss : fst (span_of c) = zs t) by (unfold span_of; rewrite T2, T1; reflexivity).
    split.
    - cbn [ord]. split; [|exact Ho]. intros e He Hr.
      rewrite Forall_forall in Hg. destruct (Hg e He Hr) as (_ & _ & G3).
      rewrite Hss. unfold zs, ze. lia.
    - constructor.
      + intros _. rewrite T1. split; [exact Hss|]. split; [exact Hne|lia].
      + eapply Forall_impl; [|exact Hg]. intros e. apply good_mono. lia.
  Qed.

  Lemma cite_step_sinv k acc j t acc' :
    (k <= j)%nat -> nth_error words j = Some (T t) -> (t_start t < t_end t)%nat ->
    sinv k acc ->
    cite_step search refsearch MAXC BACK D highest this_year edition_of source_of valid_name is_space
              text words acc (j, t) = Ok acc' ->
    sinv (S j) acc'.
  Proof.
    intros Hk Hn Hne Hacc Hs. unfold cite_step in Hs.
    assert (Hkeep : sinv (S j) acc).
    { destruct Hacc as [Ho Hg]. split; [exact Ho|].
      eapply Forall_impl; [|exact Hg]. intros e. apply good_mono. lia. }
    destruct (t_kind t) eqn:Ek.
    - destruct (t_short t) eqn:Esh.
      + destruct (extract_short _ _ _ _ _ _ _ _) as [c|] eqn:Ee; [|discriminate Hs].
        cbn [bind] in Hs. injection Hs as <-.
        eapply sinv_tok; eauto. eapply short_tok; eauto.
      + destruct (extract_full _ _ _ _ _ _ _ _ _ _ _ _) as [c0|] eqn:Ee; [|discriminate Hs].
        cbn [bind] in Hs. injection Hs as <-.
        pose proof (full_ok search MAXC BACK D highest this_year edition_of
                      source_of is_space text words Wok Hstream Hsearch HWok _ _ _ Hn Ee) as H0.
        pose proof (full_tok _ _ _ Hn Ee) as Ht0.
        match goal with |- sinv _ (?c :: _) => set (cc := c) end.
        assert (Hic : inv text cc /\ tokc t cc).
        { unfold cc. destruct acc as [|pre acc0]; [auto|].
          destruct (is_full_case c0 && is_full_case pre); [|auto].
          split; [apply (same_off_inv _ _ _ (parallel_same _ _) H0)|apply parallel_tok, Ht0]. }
        clearbody cc. destruct Hic as [Hic Htc].
        destruct (pos_token _ _ _ _ Hstream Hn) as (Hp0 & Hp1 & _).
        pose proof (pos_mono words k j Hk) as Hm.
        destruct Hacc as [Ho Hg].
        assert (Hse : ze t <= snd (span_of cc)).
        { destruct Htc as (T1 & _). destruct Hic as (_ & _ & I3 & _).
          unfold span_of. cbn [snd]. rewrite T1 in *.
          destruct (p_span_end cc) as [x|]; [apply (I3 x eq_refl)|lia]. }
        assert (Hord : ord (rev (references refsearch valid_name text cc) ++ acc)).
        { apply (ord_refs _ acc (ze t)); [| |exact Ho].
          - intros x Hx. apply in_rev in Hx. destruct (references_start _ _ Hx) as [R1 R2].
            split; [exact R1|lia].
          - intros e He Hr. rewrite Forall_forall in Hg. destruct (Hg e He Hr) as (_ & _ & G3).
            unfold ze. lia. }
        assert (Hgood : Forall (good k) (rev (references refsearch valid_name text cc) ++ acc)).
        { apply Forall_app. split; [|exact Hg]. apply Forall_forall. intros x Hx Hr.
          apply in_rev in Hx. destruct (references_start _ _ Hx) as [R1 _]. congruence. }
        apply (sinv_tok k _ j t cc Hk Hn Hne Htc). split; assumption.
    - injection Hs as <-. eapply sinv_tok; eauto. unfold tokc, is_ref. psimp. auto.
    - destruct (extract_supra _ _ _ _ _) as [c|] eqn:Ee; [|discriminate Hs].
      cbn [bind] in Hs. injection Hs as <-. eapply sinv_tok; eauto. eapply supra_tok; eauto.
    - destruct (extract_id _ _ _ _ _) as [c|] eqn:Ee; [|discriminate Hs].
      cbn [bind] in Hs. injection Hs as <-. eapply sinv_tok; eauto. eapply id_tok; eauto.
    - injection Hs as <-. exact Hkeep.
    - injection Hs as <-. exact Hkeep.
    - injection Hs as <-. exact Hkeep.
  Qed.

  Lemma cite_run_sinv its : forall k acc acc',
    (forall i t, In (i, t) its -> nth_error words i = Some (T t) /\ (t_start t < t_end t)%nat) ->
    StronglySorted (fun a b : nat * tok => (fst a < fst b)%nat) its ->
    (forall it, In it its -> (k <= fst it)%nat) ->
    sinv k acc ->
    cite_run search refsearch MAXC BACK D highest this_year edition_of source_of valid_name is_space
             text words acc its = Ok acc' ->
    exists k', sinv k' acc'.
  Proof.
    induction its as [|[i t] its IH]; intros k acc acc' Hin Hsort Hk Hacc Hr; cbn [cite_run] in Hr.
    - injection Hr as <-. exists k. exact Hacc.
    - destruct (cite_step _ _ _ _ _ _ _ _ _ _ _ _ _ acc (i, t)) as [acc1|] eqn:Es; [|discriminate Hr].
      cbn [bind] in Hr. inversion Hsort as [|? ? Hs1 Hs2]; subst.
      destruct (Hin i t (or_introl eq_refl)) as [Hn Hne].
      apply (IH (S i) acc1 acc'); [| | | |exact Hr].
      + intros i' t' H'. apply Hin. right. exact H'.
      + exact Hs1.
      + intros it Hit. rewrite Forall_forall in Hs2. specialize (Hs2 it Hit). cbn [fst] in Hs2. lia.
      + eapply cite_step_sinv; [|exact Hn|exact Hne|exact Hacc|exact Es].
        apply (Hk (i, t)). left. reflexivity.
  Qed.
End Meta.

(* ------------------------------------------------------------------ *)
(* filtering                                                           *)
(* ------------------------------------------------------------------ *)

Lemma enumerate_app {A} (a b : list A) : forall i,
  enumerate i (a ++ b) = enumerate i a ++ enumerate (i + length a) b.
Proof.
  induction a as [|x a IH]; intros i; cbn [app enumerate length].
  - rewrite Nat.add_0_r. reflexivity.
  - rewrite IH. do 2 f_equal. f_equal. lia.
Qed.

Lemma enumerate_In {A} (l : list A) : forall i j x, In (j, x) (enumerate i l) -> In x l.
Proof.
  induction l as [|y l IH]; intros i j x H; cbn [enumerate] in H; [destruct H|].
  destruct H as [H|H]; [injection H as _ <-; left; reflexivity|right; eapply IH; exact H].
Qed.

(* a non-reference citation that is the last one with its span survives filter_citations *)
Lemma filter_pcits_keeps l1 c l2 :
  is_ref c = false -> (forall x, In x l2 -> span_of x <> span_of c) ->
  In c (filter_pcits (l1 ++ c :: l2)).
Proof.
  intros Hr Hl2. unfold filter_pcits. apply in_flat_map.
  exists (to_fc (length l1, c)). split.
  - apply filter_keeps_nonrefs; [|exact Hr].
    rewrite enumerate_app, map_app. cbn [enumerate map].
    eexists _, _. split; [reflexivity|].
    intros x Hx. apply in_map_iff in Hx. destruct Hx as ([j y] & <- & Hy).
    apply enumerate_In in Hy. apply zspan_eqb_neq. cbn [to_fc f_span snd]. apply Hl2, Hy.
  - cbn [to_fc f_id fst]. rewrite nth_error_app2, Nat.sub_diag by lia. left; reflexivity.
Qed.

Definition cits_sorted (cits : list (nat * tok)) : Prop :=
  StronglySorted (fun a b : nat * tok => (fst a < fst b)%nat) cits.
Definition cits_nonempty (cits : list (nat * tok)) : Prop :=
  forall i t, In (i, t) cits -> (t_start t < t_end t)%nat.

(* ------------------------------------------------------------------ *)
(* C17                                                                 *)
(* ------------------------------------------------------------------ *)

(* Weak form: donors are taken from the unfiltered citation list. *)
Theorem get_citations_metadata_weak_w :
  forall (Wok Wd : str -> Prop)
         search refsearch MAXC BACK D highest this_year edition_of source_of valid_name is_space
         text words cits ra l,
  text <> s_eyecite ->
  stream_ok text words -> cits_ok words cits -> toks_ok source_of words ->
  (forall a b, Wok (slice text a b)) ->
  (forall w c r, infix w text -> w = c :: r -> in_chars [COMMA; SP; LPAR] c = false -> Wd w) ->
  search_ok_w Wok search -> refs_ok refsearch ->
  defyear_ok_w Wd search ->
  get_citations search refsearch MAXC BACK D highest this_year edition_of source_of valid_name is_space
                text words cits ra = Ok l ->
  exists acc,
    cite_run search refsearch MAXC BACK D highest this_year edition_of source_of valid_name is_space
             text words [] cits = Ok acc /\
    (forall c, In c l -> In c (rev acc)) /\
    Forall (meta_ok text (rev acc)) l.
Proof.
  intros Wok Wd search refsearch MAXC BACK D highest this_year edition_of source_of valid_name is_space
         text words cits ra l Hne Hstream Hcits Htoks HWok HWd Hsearch Hrefs Hdy Hg.
  unfold get_citations in Hg.
  destruct (str_eqb_spec text s_eyecite) as [E|_]; [contradiction|].
  destruct (cite_run _ _ _ _ _ _ _ _ _ _ _ _ _ _ _) as [acc|] eqn:Er; [|discriminate Hg].
  cbn [bind] in Hg. injection Hg as <-.
  exists acc. split; [reflexivity|].
  assert (Hacc : minv text acc).
  { eapply (cite_run_meta search refsearch MAXC BACK D highest this_year edition_of source_of
              valid_name is_space text words Wok Wd Hstream Hsearch HWok HWd Hdy Htoks Hrefs);
      [exact Hcits|constructor|exact Er]. }
  assert (Hsub : forall c, In c (if ra then disambiguate is_resource has_guess (filter_pcits (rev acc))
                                 else filter_pcits (rev acc)) -> In c (rev acc)).
  { intros c Hc. apply filter_pcits_incl. destruct ra; [|exact Hc].
    unfold disambiguate in Hc. apply filter_In in Hc. tauto. }
  split; [exact Hsub|].
  apply Forall_forall. intros c Hc. apply Hsub in Hc.
  unfold minv in Hacc. rewrite Forall_forall in Hacc.
  eapply meta_ok_mono; [|apply Hacc, in_rev, Hc]. intros d Hd. apply in_rev in Hd. exact Hd.
Qed.

Theorem get_citations_metadata_weak :
  forall search refsearch MAXC BACK D highest this_year edition_of source_of valid_name is_space
         text words cits ra l,
  text <> s_eyecite ->
  stream_ok text words -> cits_ok words cits -> toks_ok source_of words ->
  search_ok search -> refs_ok refsearch ->
  defyear_ok search ->
  get_citations search refsearch MAXC BACK D highest this_year edition_of source_of valid_name is_space
                text words cits ra = Ok l ->
  exists acc,
    cite_run search refsearch MAXC BACK D highest this_year edition_of source_of valid_name is_space
             text words [] cits = Ok acc /\
    (forall c, In c l -> In c (rev acc)) /\
    Forall (meta_ok text (rev acc)) l.
Proof.
  intros search refsearch MAXC BACK D highest this_year edition_of source_of valid_name is_space
         text words cits ra l Hne Hstream Hcits Htoks Hsearch Hrefs Hdy Hg.
  exact (get_citations_metadata_weak_w (fun _ => True) (fun _ => True)
           _ _ _ _ _ _ _ _ _ _ _ _ _ _ _ _ Hne Hstream Hcits Htoks (fun _ _ => I)
           (fun _ _ _ _ _ _ => I) (search_ok_w_of_ok _ _ Hsearch) Hrefs
           (defyear_ok_w_of_ok _ _ Hdy) Hg).
Qed.

Corollary get_citations_metadata_weak_ex :
  forall search refsearch MAXC BACK D highest this_year edition_of source_of valid_name is_space
         text words cits ra l,
  text <> s_eyecite ->
  stream_ok text words -> cits_ok words cits -> toks_ok source_of words ->
  search_ok search -> refs_ok refsearch ->
  defyear_ok search ->
  get_citations search refsearch MAXC BACK D highest this_year edition_of source_of valid_name is_space
                text words cits ra = Ok l ->
  exists all, (forall c, In c l -> In c all) /\ Forall (meta_ok text all) l.
Proof.
  intros until l. intros Hne Hstream Hcits Htoks Hsearch Hrefs Hdy Hg.
  destruct (get_citations_metadata_weak _ _ _ _ _ _ _ _ _ _ _ _ _ _ _ _
              Hne Hstream Hcits Htoks Hsearch Hrefs Hdy Hg) as (acc & _ & H1 & H2).
  exists (rev acc). auto.
Qed.

(* Strong form, for token lists in increasing order with non-empty tokens: every
   donor survives filter_citations, so donors can be taken from the result computed
   without remove_ambiguous (which is the result itself when ra = false). *)
Theorem get_citations_metadata_ra_w :
  forall (Wok Wd : str -> Prop)
         search refsearch MAXC BACK D highest this_year edition_of source_of valid_name is_space
         text words cits ra l,
  text <> s_eyecite ->
  stream_ok text words -> cits_ok words cits -> toks_ok source_of words ->
  (forall a b, Wok (slice text a b)) ->
  (forall w c r, infix w text -> w = c :: r -> in_chars [COMMA; SP; LPAR] c = false -> Wd w) ->
  search_ok_w Wok search -> refs_ok refsearch ->
  defyear_ok_w Wd search -> cits_sorted cits -> cits_nonempty cits ->
  get_citations search refsearch MAXC BACK D highest this_year edition_of source_of valid_name is_space
                text words cits ra = Ok l ->
  exists l0,
    get_citations search refsearch MAXC BACK D highest this_year edition_of source_of valid_name is_space
                  text words cits false = Ok l0 /\
    (forall c, In c l -> In c l0) /\ Forall (meta_ok text l0) l.
Proof.
  intros Wok Wd search refsearch MAXC BACK D highest this_year edition_of source_of valid_name is_space
         text words cits ra l Hne Hstream Hcits Htoks HWok HWd Hsearch Hrefs Hdy Hsort Hnonempty Hg.
  unfold get_citations in *.
  destruct (str_eqb_spec text s_eyecite) as [E|_]; [contradiction|].
  destruct (cite_run _ _ _ _ _ _ _ _ _ _ _ _ _ _ _) as [acc|] eqn:Er; [|discriminate Hg].
  cbn [bind] in *. injection Hg as <-.
  exists (filter_pcits (rev acc)). split; [reflexivity|].
  assert (Hacc : minv text acc).
  { eapply (cite_run_meta search refsearch MAXC BACK D highest this_year edition_of source_of
              valid_name is_space text words Wok Wd Hstream Hsearch HWok HWd Hdy Htoks Hrefs);
      [exact Hcits|constructor|exact Er]. }
  assert (Hs : exists k, sinv words k acc).
  { eapply (cite_run_sinv search refsearch MAXC BACK D highest this_year edition_of source_of
              valid_name is_space text words Wok Hstream Hsearch HWok cits 0%nat []);
      [| exact Hsort | intros; lia | split; constructor | exact Er].
    intros i t Hit. split; [apply Hcits, Hit|apply (Hnonempty i t Hit)]. }
  destruct Hs as (k & Hord & Hgood).
  assert (Hsurv : forall d, In d acc -> is_ref d = false -> In d (filter_pcits (rev acc))).
  { intros d Hd Hr. apply in_split in Hd. destruct Hd as (l1 & l2 & ->).
    rewrite rev_app_distr. cbn [rev]. rewrite <- app_assoc. cbn [app].
    apply filter_pcits_keeps; [exact Hr|].
    intros x Hx. apply in_rev in Hx.
    pose proof (ord_split l1 d l2 Hord Hr x Hx) as Hlt.
    rewrite Forall_forall in Hgood.
    assert (Hdin : In d (l1 ++ d :: l2)) by (apply in_or_app; right; left; reflexivity).
    destruct (Hgood d Hdin Hr) as (G1 & G2 & _).
    intros Heq. rewrite Heq, G1 in Hlt. unfold zs, ze in Hlt. lia. }
  assert (Hsub : forall c, In c (if ra then disambiguate is_resource has_guess (filter_pcits (rev acc))
                                 else filter_pcits (rev acc)) -> In c (filter_pcits (rev acc))).
  { intros c Hc. destruct ra; [|exact Hc].
    unfold disambiguate in Hc. apply filter_In in Hc. tauto. }
  split; [exact Hsub|].
  apply Forall_forall. intros c Hc. apply Hsub, filter_pcits_incl, in_rev in Hc.
  unfold minv in Hacc. rewrite Forall_forall in Hacc. specialize (Hacc c Hc).
  intros v Hv. destruct (Hacc v Hv) as [Hi|(Hcl & d & Hd & Hdc & Hrest)]; [left; exact Hi|].
  right. split; [exact Hcl|]. exists d. split; [|split; [exact Hdc|exact Hrest]].
  apply Hsurv; [exact Hd|]. unfold is_ref. rewrite Hdc. reflexivity.
Qed.

Theorem get_citations_metadata_ra :
  forall search refsearch MAXC BACK D highest this_year edition_of source_of valid_name is_space
         text words cits ra l,
  text <> s_eyecite ->
  stream_ok text words -> cits_ok words cits -> toks_ok source_of words ->
  search_ok search -> refs_ok refsearch ->
  defyear_ok search -> cits_sorted cits -> cits_nonempty cits ->
  get_citations search refsearch MAXC BACK D highest this_year edition_of source_of valid_name is_space
                text words cits ra = Ok l ->
  exists l0,
    get_citations search refsearch MAXC BACK D highest this_year edition_of source_of valid_name is_space
                  text words cits false = Ok l0 /\
    (forall c, In c l -> In c l0) /\ Forall (meta_ok text l0) l.
Proof.
  intros search refsearch MAXC BACK D highest this_year edition_of source_of valid_name is_space
         text words cits ra l Hne Hstream Hcits Htoks Hsearch Hrefs Hdy Hsort Hnonempty Hg.
  exact (get_citations_metadata_ra_w (fun _ => True) (fun _ => True)
           _ _ _ _ _ _ _ _ _ _ _ _ _ _ _ _ Hne Hstream Hcits Htoks (fun _ _ => I)
           (fun _ _ _ _ _ _ => I) (search_ok_w_of_ok _ _ Hsearch) Hrefs
           (defyear_ok_w_of_ok _ _ Hdy) Hsort Hnonempty Hg).
Qed.

(* the guarded forms: a text without whitespace other than U+0020; the backward-anchor clause and
   defyear_ok are only required on the windows such a text produces *)
Lemma defyear_window_of_clean : forall is_space (text : str),
  ws_clean is_space text ->
  forall w c r, infix w text -> w = c :: r -> in_chars [COMMA; SP; LPAR] c = false ->
    defyear_window is_space w.
Proof.
  intros is_space text Hclean w c r Hinf Hw Hc. split.
  - apply (ws_clean_incl is_space text); [exact (infix_In _ _ Hinf)|exact Hclean].
  - exists c, r. split; [exact Hw|].
    destruct (is_space c) eqn:Es; [|reflexivity]. exfalso.
    assert (Hin : In c text) by (apply (infix_In _ _ Hinf); rewrite Hw; left; reflexivity).
    rewrite (Hclean c Hin Es) in Hc. vm_compute in Hc. discriminate Hc.
Qed.

Theorem get_citations_metadata_ra_g :
  forall search refsearch MAXC BACK D highest this_year edition_of source_of valid_name is_space
         text words cits ra l,
  text <> s_eyecite -> ws_clean is_space text ->
  stream_ok text words -> cits_ok words cits -> toks_ok source_of words ->
  search_ok_g is_space search -> refs_ok refsearch ->
  defyear_ok_g is_space search -> cits_sorted cits -> cits_nonempty cits ->
  get_citations search refsearch MAXC BACK D highest this_year edition_of source_of valid_name is_space
                text words cits ra = Ok l ->
  exists l0,
    get_citations search refsearch MAXC BACK D highest this_year edition_of source_of valid_name is_space
                  text words cits false = Ok l0 /\
    (forall c, In c l -> In c l0) /\ Forall (meta_ok text l0) l.
Proof.
  intros search refsearch MAXC BACK D highest this_year edition_of source_of valid_name is_space
         text words cits ra l Hne Hclean Hstream Hcits Htoks Hsearch Hrefs Hdy Hsort Hnonempty Hg.
  exact (get_citations_metadata_ra_w (ws_clean is_space) (defyear_window is_space)
           _ _ _ _ _ _ _ _ _ _ _ _ _ _ _ _ Hne Hstream Hcits Htoks
           (fun a b => ws_clean_slice is_space text a b Hclean)
           (defyear_window_of_clean is_space text Hclean)
           (search_ok_w_of_g _ _ Hsearch) Hrefs
           (defyear_ok_w_of_g _ _ Hdy) Hsort Hnonempty Hg).
Qed.

Theorem get_citations_metadata_sorted_g :
  forall search refsearch MAXC BACK D highest this_year edition_of source_of valid_name is_space
         text words cits l,
  text <> s_eyecite -> ws_clean is_space text ->
  stream_ok text words -> cits_ok words cits -> toks_ok source_of words ->
  search_ok_g is_space search -> refs_ok refsearch ->
  defyear_ok_g is_space search -> cits_sorted cits -> cits_nonempty cits ->
  get_citations search refsearch MAXC BACK D highest this_year edition_of source_of valid_name is_space
                text words cits false = Ok l ->
  Forall (meta_ok text l) l.
Proof.
  intros until l. intros Hne Hclean Hstream Hcits Htoks Hsearch Hrefs Hdy Hsort Hnonempty Hg.
  destruct (get_citations_metadata_ra_g _ _ _ _ _ _ _ _ _ _ _ _ _ _ _ _
              Hne Hclean Hstream Hcits Htoks Hsearch Hrefs Hdy Hsort Hnonempty Hg) as (l0 & Hg0 & _ & H).
  rewrite Hg in Hg0. injection Hg0 as <-. exact H.
Qed.

(* the stated conclusion, for remove_ambiguous = false *)
Theorem get_citations_metadata_sorted :
  forall search refsearch MAXC BACK D highest this_year edition_of source_of valid_name is_space
         text words cits l,
  text <> s_eyecite ->
  stream_ok text words -> cits_ok words cits -> toks_ok source_of words ->
  search_ok search -> refs_ok refsearch ->
  defyear_ok search -> cits_sorted cits -> cits_nonempty cits ->
  get_citations search refsearch MAXC BACK D highest this_year edition_of source_of valid_name is_space
                text words cits false = Ok l ->
  Forall (meta_ok text l) l.
Proof.
  intros until l. intros Hne Hstream Hcits Htoks Hsearch Hrefs Hdy Hsort Hnonempty Hg.
  destruct (get_citations_metadata_ra _ _ _ _ _ _ _ _ _ _ _ _ _ _ _ _
              Hne Hstream Hcits Htoks Hsearch Hrefs Hdy Hsort Hnonempty Hg) as (l0 & Hg0 & _ & H).
  rewrite Hg in Hg0. injection Hg0 as <-. exact H.
Qed.

(* remove_ambiguous = true drops resource citations without an edition guess, possibly a
   donor; when every full case citation of the unambiguated result has a guess, the stated
   conclusion holds for any value of remove_ambiguous *)
Corollary get_citations_metadata_guessed :
  forall search refsearch MAXC BACK D highest this_year edition_of source_of valid_name is_space
         text words cits ra l,
  text <> s_eyecite ->
  stream_ok text words -> cits_ok words cits -> toks_ok source_of words ->
  search_ok search -> refs_ok refsearch ->
  defyear_ok search -> cits_sorted cits -> cits_nonempty cits ->
  get_citations search refsearch MAXC BACK D highest this_year edition_of source_of valid_name is_space
                text words cits ra = Ok l ->
  (forall l0 d,
     get_citations search refsearch MAXC BACK D highest this_year edition_of source_of valid_name is_space
                   text words cits false = Ok l0 ->
     In d l0 -> p_cls d = CFullCase -> has_guess d = true) ->
  Forall (meta_ok text l) l.
Proof.
  intros until l. intros Hne Hstream Hcits Htoks Hsearch Hrefs Hdy Hsort Hnonempty Hg Hguess.
  destruct (get_citations_metadata_ra _ _ _ _ _ _ _ _ _ _ _ _ _ _ _ _
              Hne Hstream Hcits Htoks Hsearch Hrefs Hdy Hsort Hnonempty Hg) as (l0 & Hg0 & _ & H).
  specialize (Hguess l0).
  assert (Hkeep : forall d, In d l0 -> p_cls d = CFullCase -> In d l).
  { intros d Hd Hc. specialize (Hguess d Hg0 Hd Hc).
    unfold get_citations in Hg, Hg0.
    destruct (str_eqb_spec text s_eyecite) as [E|_]; [contradiction|].
    destruct (cite_run _ _ _ _ _ _ _ _ _ _ _ _ _ _ _) as [acc|]; [|discriminate Hg].
    cbn [bind] in Hg, Hg0. injection Hg as <-. injection Hg0 as <-.
    destruct ra; [|exact Hd]. unfold disambiguate. apply filter_In. split; [exact Hd|].
    rewrite Hguess. apply orb_true_r. }
  eapply Forall_impl; [|exact H]. intros c Hc v Hv.
  destruct (Hc v Hv) as [Hi|(Hcl & d & Hd & Hdc & Hrest)]; [left; exact Hi|].
  right. split; [exact Hcl|]. exists d. split; [apply Hkeep; assumption|]. split; [exact Hdc|exact Hrest].
Qed.

(* ------------------------------------------------------------------ *)
(* the extra hypotheses cannot be dropped                              *)
(* ------------------------------------------------------------------ *)

Definition cx_stop : tok :=
  {| t_kind := KStopWord; t_start := 0; t_end := 1; t_data := [115%N];
     t_groups := [(g_stop_word, Some [115%N])]; t_short := false; t_exact := []; t_var := [] |}.

(* Without defyear_ok the statement fails (already in its weak form, and for sorted,
   non-empty tokens): DEFENDANT_YEAR captures a year but no defendant name, so
   add_pre_citation runs afterwards and moves full_span_start past the year.
   text = "syc": stop word "s", word "y", citation token "c". *)
Theorem metadata_needs_defyear :
  exists search refsearch MAXC BACK D highest this_year edition_of source_of valid_name is_space
         text words cits ra l,
    text <> s_eyecite /\ stream_ok text words /\ cits_ok words cits /\ toks_ok source_of words /\
    search_ok search /\ refs_ok refsearch /\ (forall w, search PPostShort w <> None) /\
    cits_sorted cits /\ cits_nonempty cits /\
    get_citations search refsearch MAXC BACK D highest this_year edition_of source_of valid_name is_space
                  text words cits ra = Ok l /\
    cite_run search refsearch MAXC BACK D highest this_year edition_of source_of valid_name is_space
             text words [] cits = Ok (rev l) /\
    ~ Forall (meta_ok text l) l.
Proof.
  set (t := {| t_kind := KCitation; t_start := 2; t_end := 3; t_data := [99%N];
               t_groups := []; t_short := false; t_exact := [0%nat]; t_var := [] |}).
  set (search := fun (p : pat) (w : str) =>
         match p with
         | PDefYear => if str_eqb w [121%N]
                       then Some {| m_start := 0; m_end := 1; m_groups := [(g_year, Some (0%nat, 1%nat))] |}
                       else None
         | PPreFull => Some {| m_start := length w; m_end := length w; m_groups := [] |}
         | PPostShort => Some {| m_start := 0; m_end := 0; m_groups := [] |}
         | _ => None
         end).
  exists search, (fun _ _ => []), 10%nat, 10%nat, {| d_nd := []; d_isdigit := []; d_maxdigits := 4300%N |},
         2100, 2026, (fun _ => None), (fun _ => 0%nat), (fun _ => true), (fun _ => false),
         [115%N; 121%N; 99%N], [T cx_stop; W [121%N]; T t], [(2%nat, t)], false.
  eexists.
  split; [discriminate|].
  assert (Hnth : forall k t', nth_error [T cx_stop; W [121%N]; T t] k = Some (T t') ->
                   (k = 0%nat /\ t' = cx_stop) \/ (k = 2%nat /\ t' = t)).
  { intros k t' Hk. destruct k as [|[|[|k]]]; cbn in Hk.
    - injection Hk as <-. auto.
    - discriminate Hk.
    - injection Hk as <-. auto.
    - destruct k; discriminate Hk. }
  split.
  { split; [reflexivity|]. intros k t' Hk. destruct (Hnth _ _ Hk) as [[-> ->]|[-> ->]].
    - split; [reflexivity|]. unfold cand_wf. cbn. repeat split; lia.
    - split; [reflexivity|]. unfold cand_wf. cbn. repeat split; lia. }
  split.
  { intros i t' [H|[]]. injection H as <- <-. reflexivity. }
  split.
  { intros k t' Hk. destruct (Hnth _ _ Hk) as [[-> ->]|[-> ->]]; unfold tok_ok; cbn [t_kind cx_stop t].
    - eexists. reflexivity.
    - split; [discriminate|]. intros _. exists 0%nat. split; [left; reflexivity|lia]. }
  split.
  { intros p w m H. destruct p; cbn in H; try discriminate H.
    - injection H as <-.
      split; [|split; [|split; [|split; [|split]]]]; unfold mres_ok; cbn [m_start m_end m_groups fwd_pat bwd_pat gspan];
        try discriminate; try (intros _; reflexivity).
      split; [lia|]. split; [lia|]. intros k a b [].
    - injection H as <-.
      split; [|split; [|split; [|split; [|split]]]]; unfold mres_ok; cbn [m_start m_end m_groups fwd_pat bwd_pat gspan];
        try discriminate; try (intros _; reflexivity); try (intros _ a b H'; discriminate H').
      split; [lia|]. split; [lia|]. intros k a b [].
    - destruct (str_eqb_spec w [121%N]) as [->|_]; [|discriminate H].
      injection H as <-.
      split; [|split; [|split; [|split; [|split]]]]; unfold mres_ok; cbn [m_start m_end m_groups fwd_pat bwd_pat gspan];
        try discriminate; try (intros _; reflexivity).
      split; [lia|]. split; [cbn; lia|]. intros k a b [H|[]]. injection H as _ <- <-. lia. }
  split; [intros names s a b gd []|].
  split; [intros w; discriminate|].
  split; [repeat constructor|].
  split; [intros i t' [H|[]]; injection H as _ <-; cbn; lia|].
  split; [vm_compute; reflexivity|].
  split; [vm_compute; reflexivity|].
  intros H. inversion H as [|? ? Hc _]. clear H.
  specialize (Hc [121%N]). cbn in Hc.
  destruct Hc as [Hi|(_ & d & Hd & _ & _ & _ & Hi)]; [auto| |].
  - unfold inside in Hi. apply infixb_spec in Hi. vm_compute in Hi. discriminate Hi.
  - destruct Hd as [<-|[]]. unfold inside in Hi. apply infixb_spec in Hi. vm_compute in Hi.
    discriminate Hi.
Qed.

(* Without cits_sorted the strong form fails even when defyear_ok holds: with the two
   citation tokens of "s a c b d y" (stop word s, citations c and d) processed in the order
   d, c, the citation for c inherits defendant and year from the one for d, and a
   reference citation found after c with the span of d replaces d in filter_citations. *)
Theorem metadata_needs_sorted :
  exists search refsearch MAXC BACK D highest this_year edition_of source_of valid_name is_space
         text words cits l,
    text <> s_eyecite /\ stream_ok text words /\ cits_ok words cits /\ toks_ok source_of words /\
    search_ok search /\ refs_ok refsearch /\ (forall w, search PPostShort w <> None) /\
    defyear_ok search /\ cits_nonempty cits /\
    get_citations search refsearch MAXC BACK D highest this_year edition_of source_of valid_name is_space
                  text words cits false = Ok l /\
    ~ Forall (meta_ok text l) l.
Proof.
  set (t1 := {| t_kind := KCitation; t_start := 2; t_end := 3; t_data := [99%N];
                t_groups := []; t_short := false; t_exact := [0%nat]; t_var := [] |}).
  set (t2 := {| t_kind := KCitation; t_start := 4; t_end := 5; t_data := [100%N];
                t_groups := []; t_short := false; t_exact := [0%nat]; t_var := [] |}).
  set (search := fun (p : pat) (w : str) =>
         match p with
         | PPostFull => if str_eqb w [121%N]
                        then Some {| m_start := 0; m_end := 1; m_groups := [(g_year, Some (0%nat, 1%nat))] |}
                        else None
         | PPostShort => Some {| m_start := 0; m_end := 0; m_groups := [] |}
         | _ => None
         end).
  set (refsearch := fun (_ : list (str * str)) (s : str) =>
         if str_eqb s [98%N; 100%N; 121%N]
         then [(1%nat, 2%nat, @nil (str * option str))] else []).
  set (ws := [T cx_stop; W [97%N]; T t1; W [98%N]; T t2; W [121%N]]).
  exists search, refsearch, 10%nat, 10%nat, {| d_nd := []; d_isdigit := []; d_maxdigits := 4300%N |},
         2100, 2026, (fun _ => None), (fun _ => 0%nat), (fun _ => true), (fun _ => false),
         [115%N; 97%N; 99%N; 98%N; 100%N; 121%N], ws, [(4%nat, t2); (2%nat, t1)].
  eexists.
  split; [discriminate|].
  assert (Hnth : forall k t', nth_error ws k = Some (T t') ->
                   (k = 0%nat /\ t' = cx_stop) \/ (k = 2%nat /\ t' = t1) \/ (k = 4%nat /\ t' = t2)).
  { intros k t' Hk. do 6 (destruct k as [|k]; [cbn in Hk; first [discriminate Hk | injection Hk as <-; auto]|]).
    destruct k; discriminate Hk. }
  split.
  { split; [reflexivity|]. intros k t' Hk.
    destruct (Hnth _ _ Hk) as [[-> ->]|[[-> ->]|[-> ->]]];
      (split; [reflexivity|]); unfold cand_wf; cbn; repeat split; lia. }
  split.
  { intros i t' [H|[H|[]]]; injection H as <- <-; reflexivity. }
  split.
  { intros k t' Hk. destruct (Hnth _ _ Hk) as [[-> ->]|[[-> ->]|[-> ->]]]; unfold tok_ok;
      cbn [t_kind cx_stop t1 t2].
    - eexists. reflexivity.
    - split; [discriminate|]. intros _. exists 0%nat. split; [left; reflexivity|lia].
    - split; [discriminate|]. intros _. exists 0%nat. split; [left; reflexivity|lia]. }
  split.
  { intros p w m H. destruct p; cbn in H; try discriminate H.
    - destruct (str_eqb_spec w [121%N]) as [->|_]; [|discriminate H].
      injection H as <-.
      split; [|split; [|split; [|split; [|split]]]]; unfold mres_ok;
        cbn [m_start m_end m_groups fwd_pat bwd_pat];
        try discriminate; try (intros _; reflexivity).
      all: try (intros _ a b H'; vm_compute in H'; discriminate H').
      split; [lia|]. split; [cbn; lia|]. intros k a b [H|[]]. injection H as _ <- <-. lia.
    - injection H as <-.
      split; [|split; [|split; [|split; [|split]]]]; unfold mres_ok;
        cbn [m_start m_end m_groups fwd_pat bwd_pat gspan];
        try discriminate; try (intros _; reflexivity); try (intros _ a b H'; discriminate H').
      split; [lia|]. split; [lia|]. intros k a b []. }
  split.
  { intros names s a b gd H. unfold refsearch in H.
    destruct (str_eqb_spec s [98%N; 100%N; 121%N]) as [->|_]; [|destruct H].
    destruct H as [H|[]]. injection H as <- <- <-. cbn. split; [lia|]. split; [lia|]. intros k v []. }
  split; [intros w; discriminate|].
  split; [intros w m H; discriminate H|].
  split; [intros i t' [H|[H|[]]]; injection H as _ <-; cbn; lia|].
  split; [vm_compute; reflexivity|].
  intros H. inversion H as [|? ? Hc _]. clear H.
  specialize (Hc [121%N]). cbn in Hc.
  destruct Hc as [Hi|(_ & d & Hd & Hdc & _ & _ & Hi)]; [auto| |].
  - unfold inside in Hi. apply infixb_spec in Hi. vm_compute in Hi. discriminate Hi.
  - destruct Hd as [<-|[<-|[]]].
    + unfold inside in Hi. apply infixb_spec in Hi. vm_compute in Hi. discriminate Hi.
    + discriminate Hdc.
Qed.
Print Assumptions get_citations_metadata_ra_w.
Print Assumptions get_citations_metadata_ra_g.
Print Assumptions get_citations_metadata_sorted_g.
