(* Proofs/HashDb.v -- reflection over the regenerated reporter-string table (C16). *)
From EV Require Import Base.Str Model.Editions Proofs.HashProofs Gen.Db Gen.ExtractorIndex.

Lemma db_ids_are_positions : ids_are_positions editions_tbl 0 = true.
Proof. vm_compute. reflexivity. Qed.

Lemma db_variations_ok : forallb (variation_ok editions_tbl db_strings canon_index) db_strings = true.
Proof. vm_compute. reflexivity. Qed.

Lemma db_variation row i :
  In row db_strings ->
  guess_ids 0 editions_tbl (snd (fst row)) (snd row) = Some i ->
  exists r, In r db_strings /\ fst (fst r) = name_of editions_tbl i /\
            corrected_name editions_tbl r = corrected_name editions_tbl row.
Proof.
  intros Hin Hg. pose proof db_variations_ok as H. rewrite forallb_forall in H.
  eapply variation_ok_spec; [apply H; exact Hin|exact Hg].
Qed.
