(* Proofs/TagsProofs.v -- C11: on well-formed markup of the tag grammar, with
   the forced alignment as diff script and element annotations <n> / </n>,
   the 'wrap' and 'skip' modes of annotate produce well-formed markup with
   the same text content. *)
From EV Require Import Base.Str Base.PyVal Model.Annotate Model.Tags
  Proofs.AnnotateProofs Proofs.TagsLex.
Open Scope Z_scope.

Definition tag_annot (a : annot) : Prop :=
  exists n, valid_name n = true /\ a_before a = tok_str (TOpen n) /\ a_after a = tok_str (TClose n).

Record c11_setting (src plain : str) (ts : list ttok) (st : steps) : Prop := {
  s_lex : lex src = Some ts;                 (* the source lexes on the grammar ... *)
  s_wf : wf ts = true;                       (* ... and is well-formed *)
  s_plain : plain = text_of ts;              (* the plain text is its text content *)
  s_steps : steps_ok st (zlen plain) (zlen src);
  s_ins : insert_only st;
  s_emb : emb st = text_positions ts         (* forced alignment: plain character i sits at the i-th text position *)
}.

(* ================================================================== *)
(* render                                                              *)
(* ================================================================== *)

Lemma render_app ps qs : render (ps ++ qs) = render ps ++ render qs.
Proof. unfold render. rewrite map_app, concat_app. reflexivity. Qed.

Lemma render_cons p ps : render (p :: ps) = piece_str p ++ render ps.
Proof. reflexivity. Qed.

Lemma render_single p : render [p] = piece_str p.
Proof. cbn. apply app_nil_r. Qed.

Lemma unlex_single t : unlex [t] = tok_str t.
Proof. cbn. apply app_nil_r. Qed.

(* ================================================================== *)
(* wrap_html_tags on a rendered token list                             *)
(* ================================================================== *)

(* every tag g of m becomes  </n> g <n>  *)
Fixpoint wt (n : str) (m : list ttok) : list ttok :=
  match m with
  | [] => []
  | TText c :: r => TText c :: wt n r
  | t :: r => TClose n :: t :: TOpen n :: wt n r
  end.

Lemma wt_tag n t r : is_tag t = true -> wt n (t :: r) = TClose n :: t :: TOpen n :: wt n r.
Proof. destruct t; cbn [is_tag]; intros H; [discriminate|reflexivity..]. Qed.

Lemma tag_body_app : forall b r, ~ In GTc b -> tag_body (b ++ GTc :: r) = Some (b, r).
Proof.
  induction b as [|c b IH]; intros r Hn; cbn [app tag_body].
  - reflexivity.
  - destruct (N.eqb_spec c GT) as [->|Hc]. { exfalso; apply Hn; left; reflexivity. }
    rewrite IH; [reflexivity|intros Hin; apply Hn; right; assumption].
Qed.

Lemma wrap_go_render n : forall m fuel cur, validl m -> (length (unlex m) <= fuel)%nat ->
  render (wrap_go fuel (unlex m) cur (tok_str (TClose n)) (tok_str (TOpen n))) = cur ++ unlex (wt n m).
Proof.
  induction m as [|t m IH]; intros fuel cur Hv Hf.
  - destruct fuel; cbn [wrap_go unlex map concat wt]; rewrite render_single; cbn [piece_str];
      rewrite ?app_nil_r; reflexivity.
  - inversion Hv as [|? ? Ht Hm]; subst. rewrite unlex_cons in *. rewrite app_length in Hf.
    pose proof (tok_str_len t) as Hlen.
    destruct fuel as [|fuel]; [lia|].
    destruct (tok_cases t Ht) as [(c & -> & HcL & _)|Htag].
    + cbn [tok_str app wt length] in *. cbn [wrap_go].
      replace (N.eqb c LT) with false by (symmetry; apply N.eqb_neq; exact HcL).
      rewrite IH; [|assumption|lia]. rewrite unlex_cons. cbn [tok_str].
      rewrite <- app_assoc. reflexivity.
    + rewrite (wt_tag n t m Htag), !unlex_cons.
      rewrite (tok_str_tag t Htag) in *. destruct (tag_inner_ok t Htag Ht) as (Hne & HG & _).
      cbn [app length] in *. cbn [wrap_go]. change (N.eqb LTc LT) with true. cbv iota.
      rewrite <- app_assoc. cbn [app]. rewrite tag_body_app by exact HG.
      destruct (tag_inner t) as [|b body]; [congruence|].
      rewrite !render_cons. cbn [piece_str].
      rewrite IH; [|assumption|rewrite app_length in Hf; lia].
      cbn [app]. rewrite <- !app_assoc. reflexivity.
Qed.

Lemma wt_run n : forall m st, run (n :: st) (wt n m ++ [TClose n]) = run st m.
Proof.
  induction m as [|t m IH]; intros st.
  - cbn [wt app run]. rewrite str_eqb_refl. reflexivity.
  - destruct t as [c|nm|nm|nm]; cbn [wt app run]; rewrite ?str_eqb_refl.
    + apply IH.
    + apply IH.
    + destruct st as [|x st]; [reflexivity|]. destruct (str_eqb x nm); [apply IH|reflexivity].
    + apply IH.
Qed.

Lemma wt_req n m : req (TOpen n :: wt n m ++ [TClose n]) m.
Proof. intros st. cbn [run]. apply wt_run. Qed.

Lemma text_of_cons t l :
  text_of (t :: l) = (match t with TText c => [c] | _ => [] end) ++ text_of l.
Proof. reflexivity. Qed.

Lemma wt_text n : forall m, text_of (wt n m) = text_of m.
Proof.
  induction m as [|t m IH]; [reflexivity|].
  destruct t; cbn [wt]; rewrite !text_of_cons, IH; reflexivity.
Qed.

Lemma wt_valid n : valid_name n = true -> forall m, validl m -> validl (wt n m).
Proof.
  intros Hn. induction m as [|t m IH]; intros Hv; [constructor|].
  inversion Hv as [|? ? Ht Hm]; subst.
  destruct t; cbn [wt]; repeat (constructor; try assumption); apply IH; assumption.
Qed.

(* ================================================================== *)
(* find_first / find_last return occurrences                           *)
(* ================================================================== *)

Lemma find_first_spec : forall s pat i, find_first pat s = Some i ->
  exists a b, s = a ++ pat ++ b /\ length a = i.
Proof.
  induction s as [|c t IH]; intros pat i H; rewrite find_first_unfold in H.
  - destruct (prefixb pat []) eqn:E; [|discriminate]. injection H as <-.
    apply prefixb_spec in E. destruct E as [r E]. exists [], r. split; [exact E|reflexivity].
  - destruct (prefixb pat (c :: t)) eqn:E.
    + injection H as <-. apply prefixb_spec in E. destruct E as [r E].
      exists [], r. split; [exact E|reflexivity].
    + destruct (find_first pat t) as [k|] eqn:E2; [|discriminate]. injection H as <-.
      destruct (IH _ _ E2) as (a & b & -> & <-). exists (c :: a), b. split; reflexivity.
Qed.

Lemma find_last_spec : forall s pat i, find_last pat s = Some i ->
  exists a b, s = a ++ pat ++ b /\ length a = i.
Proof.
  induction s as [|c t IH]; intros pat i H; cbn [find_last] in H.
  - destruct (prefixb pat []) eqn:E; [|discriminate]. injection H as <-.
    apply prefixb_spec in E. destruct E as [r E]. exists [], r. split; [exact E|reflexivity].
  - destruct (find_last pat t) as [k|] eqn:E2.
    + injection H as <-. destruct (IH _ _ E2) as (a & b & -> & <-).
      exists (c :: a), b. split; reflexivity.
    + destruct (prefixb pat (c :: t)) eqn:E; [|discriminate]. injection H as <-.
      apply prefixb_spec in E. destruct E as [r E]. exists [], r. split; [exact E|reflexivity].
Qed.

Lemma pyslice_decomp {A} (s : list A) a e : 0 <= a <= zlen s ->
  exists rest, s = firstn (Z.to_nat a) s ++ pyslice s a e ++ rest.
Proof.
  intros Ha. unfold pyslice, zlen in *. rewrite (clampZ_id _ a Ha). unfold slice.
  eexists. rewrite firstn_skipn, firstn_skipn. reflexivity.
Qed.

(* ================================================================== *)
(* the annotation loop on token boundaries                             *)
(* ================================================================== *)

Section C11.
  Variable ts : list ttok.
  Variable st : steps.
  Hypothesis Hv : validl ts.
  Local Notation src := (unlex ts).
  Local Notation plain := (text_of ts).
  Hypothesis Hsteps : steps_ok st (zlen plain) (zlen src).
  Hypothesis Hins : insert_only st.
  Hypothesis Hemb : emb st = text_positions ts.

  (* p is a token boundary of the source *)
  Definition B (p : Z) : Prop := exists k, (k <= length ts)%nat /\ p = bnd ts k.

  Lemma B_LT a b : src = a ++ LTc :: b -> B (zlen a).
  Proof.
    intros H. destruct (split_at_LT ts a b Hv H) as (k & Hk & Ek).
    exists k. split; [assumption|]. unfold bnd. rewrite Ek. reflexivity.
  Qed.

  Lemma B_GT a b : src = a ++ GTc :: b -> B (zlen a + 1).
  Proof.
    intros H. destruct (split_at_GT ts a b Hv H) as (k & Hk & Ek).
    exists k. split; [assumption|]. unfold bnd. rewrite Ek, zlen_app. reflexivity.
  Qed.

  (* ---------------- maybe_balance moves boundaries to boundaries ---------------- *)

  Lemma end1_B (b : bool) ext tag start end_ : 0 <= start <= zlen src -> B end_ ->
    B (if b then
         match find_first (tag_close tag) (pyslice src start ext) with
         | Some i => start + Z.of_nat i + zlen (tag_close tag)
         | None => end_
         end
       else end_).
  Proof.
    intros Hs He. destruct b; [|exact He].
    destruct (find_first (tag_close tag) (pyslice src start ext)) as [i|] eqn:E; [|exact He].
    apply find_first_spec in E. destruct E as (a & b' & E & Hi).
    destruct (pyslice_decomp src start ext Hs) as [rest Hd]. rewrite E in Hd.
    assert (Hd' : src = (firstn (Z.to_nat start) src ++ a ++ LT :: 47%N :: tag) ++ GTc :: (b' ++ rest)).
    { etransitivity; [exact Hd|]. unfold tag_close. cbn [app]. repeat (rewrite <- app_assoc; cbn [app]).
      reflexivity. }
    apply B_GT in Hd'.
    replace (start + Z.of_nat i + zlen (tag_close tag))
      with (zlen (firstn (Z.to_nat start) src ++ a ++ LT :: 47%N :: tag) + 1); [exact Hd'|].
    unfold zlen in *. rewrite !app_length, firstn_length_le by lia.
    unfold tag_close. cbn [length]. rewrite app_length. cbn [length]. lia.
  Qed.

  Lemma start1_B (b : bool) ext tag start end1 : 0 <= ext <= zlen src -> B start ->
    B (if b then
         match find_last (tag_open tag) (pyslice src ext end1) with
         | Some i => ext + Z.of_nat i
         | None => start
         end
       else start).
  Proof.
    intros He Hs. destruct b; [|exact Hs].
    destruct (find_last (tag_open tag) (pyslice src ext end1)) as [i|] eqn:E; [|exact Hs].
    apply find_last_spec in E. destruct E as (a & b' & E & Hi).
    destruct (pyslice_decomp src ext end1 He) as [rest Hd]. rewrite E in Hd.
    assert (Hd' : src = (firstn (Z.to_nat ext) src ++ a) ++ LTc :: (tag ++ [GT] ++ b' ++ rest)).
    { etransitivity; [exact Hd|]. unfold tag_open. cbn [app]. repeat (rewrite <- app_assoc; cbn [app]).
      reflexivity. }
    apply B_LT in Hd'.
    replace (ext + Z.of_nat i) with (zlen (firstn (Z.to_nat ext) src ++ a)); [exact Hd'|].
    unfold zlen in *. rewrite !app_length, firstn_length_le by lia. lia.
  Qed.

  Lemma balance_one_B tol span se tag : 0 <= tol -> se_ok src se -> B (fst se) -> B (snd se) ->
    B (fst (balance_one tol src span se tag)) /\ B (snd (balance_one tol src span se tag)).
  Proof.
    destruct se as [start end_]. unfold se_ok. cbn [fst snd]. intros Ht (H0 & H1 & H2) Bs Be.
    unfold balance_one. cbv zeta. cbn [fst snd]. split.
    - apply start1_B; [|exact Bs]. pose proof (tag_open_pos tag). lia.
    - apply end1_B; [lia|exact Be].
  Qed.

  Lemma maybe_balance_B tol start end_ :
    0 <= tol -> 0 <= start -> start <= end_ -> end_ <= zlen src -> B start -> B end_ ->
    se_ok src (maybe_balance tol src start end_) /\
    B (fst (maybe_balance tol src start end_)) /\ B (snd (maybe_balance tol src start end_)).
  Proof.
    intros Ht H0 H1 H2 Bs Be. unfold maybe_balance.
    assert (Hse : se_ok src (start, end_) /\ B (fst (start, end_)) /\ B (snd (start, end_))).
    { unfold se_ok. cbn [fst snd]. repeat split; assumption || lia. }
    revert Hse. generalize (start, end_). generalize (pyslice src start end_).
    induction style_tags as [|t tl IH]; intros span se Hse; cbn [fold_left]; [exact Hse|].
    apply IH. destruct Hse as (Hok & B1 & B2).
    split; [apply balance_one_ok; assumption|]. apply balance_one_B; assumption.
  Qed.

  (* ---------------- the loop invariant ---------------- *)

  Definition LInv (s : ast) : Prop :=
    exists k done, (k <= length ts)%nat /\ last_end s = bnd ts k /\
      render (rev (out_rev s)) = unlex done /\ validl done /\
      req done (firstn k ts) /\ text_of done = text_of (firstn k ts).

  Lemma LInv_B s : LInv s -> B (last_end s).
  Proof. intros (k & done & Hk & E & _). exists k. split; assumption. Qed.

  Lemma emit_LInv s k1 k2 a n span M :
    LInv s -> (k1 <= k2 <= length ts)%nat -> last_end s <= bnd ts k1 ->
    valid_name n = true -> a_before a = tok_str (TOpen n) -> a_after a = tok_str (TClose n) ->
    render span = unlex M -> validl M ->
    req (TOpen n :: M ++ [TClose n]) (slice ts k1 k2) -> text_of M = text_of (slice ts k1 k2) ->
    LInv (emit src s (bnd ts k1) (bnd ts k2) a span).
  Proof.
    intros (k0 & done & Hk0 & Hle & Hr & Hvd & Hreq & Htx) Hk Hlast Hn Hb Ha Hspan HvM HreqM HtxM.
    rewrite Hle in Hlast. apply bnd_le_inv in Hlast; [|lia|lia].
    exists k2, (done ++ slice ts k0 k1 ++ TOpen n :: M ++ [TClose n]).
    split; [lia|]. split; [reflexivity|]. split; [|split; [|split]].
    - rewrite emit_rev, render_app, Hr, Hle, pyslice_bnd by lia.
      rewrite !render_cons, render_app, render_single. cbn [piece_str].
      rewrite Hb, Ha, Hspan.
      rewrite !unlex_app, unlex_cons, unlex_app, unlex_single. reflexivity.
    - apply Forall_app. split; [assumption|]. apply Forall_app. split; [apply validl_slice; assumption|].
      constructor; [exact Hn|]. apply Forall_app. split; [assumption|].
      constructor; [exact Hn|constructor].
    - rewrite <- (firstn_slice_skipn ts k1 k2) by lia.
      rewrite <- (firstn_slice_skipn ts k0 k1) by lia. rewrite <- app_assoc.
      apply req_app; [assumption|]. apply req_app; [apply req_refl|assumption].
    - rewrite <- (firstn_slice_skipn ts k1 k2) by lia.
      rewrite <- (firstn_slice_skipn ts k0 k1) by lia.
      rewrite !text_of_app, Htx, <- HtxM, text_of_cons, text_of_app, text_of_cons.
      cbn [app text_of flat_map]. rewrite app_nil_r, <- app_assoc. reflexivity.
  Qed.

  Lemma emit_bal s k1 k2 a :
    LInv s -> (k1 <= k2 <= length ts)%nat -> last_end s <= bnd ts k1 -> tag_annot a ->
    is_balanced_html (pyslice src (bnd ts k1) (bnd ts k2)) = true ->
    LInv (emit src s (bnd ts k1) (bnd ts k2) a [Orig (pyslice src (bnd ts k1) (bnd ts k2))]).
  Proof.
    intros HI Hk Hlast (n & Hn & Hb & Ha) Hbal. rewrite pyslice_bnd in * by lia.
    apply emit_LInv with (n := n) (M := slice ts k1 k2); try assumption.
    - apply render_single.
    - apply validl_slice; assumption.
    - apply req_wrap_neutral. apply balanced_neutral; [apply validl_slice; assumption|assumption].
    - reflexivity.
  Qed.

  Lemma amode_LInv tol md s a start end_ :
    md <> Unchecked -> (md = Skip -> 0 <= tol) ->
    LInv s -> B start -> B end_ -> last_end s <= start -> start <= end_ -> tag_annot a ->
    exists s', amode is_balanced_html tol src md s a start end_ = Ok s' /\ LInv s'.
  Proof.
    intros Hmd Htol HI (k1 & Hk1 & ->) (k2 & Hk2 & ->) Hlast Hle Ha.
    assert (Hk12 : (k1 <= k2)%nat) by (apply (bnd_le_inv ts); assumption).
    unfold amode. cbv zeta. destruct md; [congruence| |].
    - (* skip *)
      destruct (is_balanced_html (pyslice src (bnd ts k1) (bnd ts k2))) eqn:Eb.
      + eexists. split; [reflexivity|]. apply emit_bal; try assumption; lia.
      + pose proof (bnd_range ts k1 Hk1) as R1. pose proof (bnd_range ts k2 Hk2) as R2.
        assert (Bk1 : B (bnd ts k1)) by (exists k1; split; [assumption|reflexivity]).
        assert (Bk2 : B (bnd ts k2)) by (exists k2; split; [assumption|reflexivity]).
        destruct (maybe_balance_B tol (bnd ts k1) (bnd ts k2) (Htol eq_refl)
                    ltac:(lia) ltac:(lia) ltac:(lia) Bk1 Bk2) as (Hse & B1 & B2).
        destruct (maybe_balance tol src (bnd ts k1) (bnd ts k2)) as [s2 e2].
        unfold se_ok in Hse. cbn [fst snd] in *. destruct Hse as (Hs0 & Hs1 & Hs2).
        destruct B1 as (j1 & Hj1 & ->). destruct B2 as (j2 & Hj2 & ->).
        assert (Hj12 : (j1 <= j2)%nat) by (apply (bnd_le_inv ts); assumption).
        destruct (bnd ts j1 <? last_end s) eqn:E; cbn [orb].
        * exists s. split; [reflexivity|assumption].
        * apply Z.ltb_ge in E.
          destruct (is_balanced_html (pyslice src (bnd ts j1) (bnd ts j2))) eqn:Eb2; cbn [negb].
          -- eexists. split; [reflexivity|]. apply emit_bal; try assumption; lia.
          -- exists s. split; [reflexivity|assumption].
    - (* wrap *)
      destruct (is_balanced_html (pyslice src (bnd ts k1) (bnd ts k2))) eqn:Eb.
      + eexists. split; [reflexivity|]. apply emit_bal; try assumption; lia.
      + eexists. split; [reflexivity|]. destruct Ha as (n & Hn & Hb & Ha).
        apply emit_LInv with (n := n) (M := wt n (slice ts k1 k2)); try assumption; try lia.
        * rewrite pyslice_bnd, Hb, Ha by lia. unfold wrap_html_tags.
          rewrite wrap_go_render; [reflexivity|apply validl_slice; assumption|lia].
        * apply wt_valid; [assumption|apply validl_slice; assumption].
        * apply wt_req.
        * apply wt_text.
  Qed.

  Lemma astep_core_LInv tol md s a start0 end_ :
    md <> Unchecked -> (md = Skip -> 0 <= tol) ->
    LInv s -> B start0 -> B end_ -> start0 <= end_ -> tag_annot a ->
    exists s', astep_core is_balanced_html tol src md s a start0 end_ = Ok s' /\ LInv s'.
  Proof.
    intros Hmd Htol HI Bs Be Hle Ha. unfold astep_core. cbv zeta.
    pose proof (LInv_B s HI) as Bl.
    destruct (start0 <? last_end s) eqn:Ecl; cbn [andb].
    - destruct (end_ <=? last_end s) eqn:E2.
      + exists s. split; [reflexivity|assumption].
      + apply Z.leb_gt in E2. apply amode_LInv; try assumption; lia.
    - apply Z.ltb_ge in Ecl. apply amode_LInv; assumption.
  Qed.

  (* the forced alignment translates plain spans to token boundaries *)
  Definition in_plain (a : annot) : Prop :=
    0 <= a_start a /\ a_start a < a_end a /\ a_end a <= zlen plain.

  Lemma trans_B a : in_plain a ->
    exists s0 e0, trans (Some (mk st)) a = Ok (s0, e0) /\ B s0 /\ B e0 /\ s0 <= e0.
  Proof.
    intros (H0 & H1 & H2).
    pose proof (emb_length st _ _ Hsteps Hins) as Hlen. rewrite Hemb in Hlen.
    pose proof (forced_alignment_start st _ _ (a_start a) Hsteps Hins ltac:(lia)) as E1.
    pose proof (forced_alignment_end st _ _ (a_end a) Hsteps Hins ltac:(lia)) as E2.
    rewrite Hemb in E1, E2.
    destruct (text_positions_nth ts (Z.to_nat (a_start a))) as (ka & Hka & Ea & _);
      [unfold zlen in *; lia|].
    destruct (text_positions_nth ts (Z.to_nat (a_end a - 1))) as (kb & Hkb & _ & Eb);
      [unfold zlen in *; lia|].
    rewrite Ea in E1. rewrite Eb in E2.
    cbn [trans]. rewrite E1, E2. cbn [bind].
    assert (Ba : B (bnd ts ka)) by (exists ka; split; [lia|reflexivity]).
    assert (Bb : B (bnd ts (S kb))) by (exists (S kb); split; [lia|reflexivity]).
    eexists _, _. split; [reflexivity|].
    destruct (bnd ts (S kb) <? bnd ts ka) eqn:E.
    - repeat split; try assumption. lia.
    - apply Z.ltb_ge in E. repeat split; assumption.
  Qed.

  Lemma astep_LInv tol md s a :
    md <> Unchecked -> (md = Skip -> 0 <= tol) -> LInv s -> in_plain a -> tag_annot a ->
    exists s', astep is_balanced_html tol src (Some (mk st)) md s a = Ok s' /\ LInv s'.
  Proof.
    intros Hmd Htol HI Hp Ha. destruct (trans_B a Hp) as (s0 & e0 & Et & Bs & Be & Hle).
    rewrite astep_eq, Et. cbn [bind fst snd]. apply astep_core_LInv; assumption.
  Qed.

  Lemma arun_LInv tol md : md <> Unchecked -> (md = Skip -> 0 <= tol) ->
    forall l s, LInv s -> Forall (fun a => in_plain a /\ tag_annot a) l ->
    exists s', arun is_balanced_html tol src (Some (mk st)) md s l = Ok s' /\ LInv s'.
  Proof.
    intros Hmd Htol. induction l as [|a l IH]; intros s HI Hl; cbn [arun].
    - exists s. split; [reflexivity|assumption].
    - inversion Hl as [|? ? [Hp Ha] Hl']; subst.
      destruct (astep_LInv tol md s a Hmd Htol HI Hp Ha) as (s1 & E1 & HI1).
      rewrite E1. cbn [bind]. apply IH; assumption.
  Qed.

  Lemma LInv_ast0 : LInv ast0.
  Proof.
    exists 0%nat, []. cbn [ast0 last_end out_rev rev firstn].
    repeat split; try reflexivity; try lia. constructor.
  Qed.

  Lemma afinish_render s : LInv s ->
    exists out, render (afinish src s) = unlex out /\ validl out /\ req out ts /\ text_of out = plain.
  Proof.
    intros (k & done & Hk & Hle & Hr & Hvd & Hreq & Htx).
    exists (done ++ skipn k ts). split; [|split; [|split]].
    - rewrite afinish_eq, render_app, Hr, unlex_app. f_equal.
      rewrite Hle, <- bnd_all.
      destruct (bnd ts k <? bnd ts (length ts)) eqn:E.
      + rewrite render_single. cbn [piece_str]. rewrite bnd_all, <- (bnd_all ts), pyslice_bnd by lia.
        rewrite slice_to_end. reflexivity.
      + apply Z.ltb_ge in E. apply bnd_le_inv in E; [|lia|lia].
        replace k with (length ts) by lia. rewrite skipn_all. reflexivity.
    - apply Forall_app. split; [assumption|apply validl_skipn; assumption].
    - rewrite <- (firstn_skipn k ts) at 2. apply req_app; [assumption|apply req_refl].
    - rewrite <- (firstn_skipn k ts) at 2. rewrite !text_of_app, Htx. reflexivity.
  Qed.

  Lemma annotate_c11 tol md annots :
    md <> Unchecked -> (md = Skip -> 0 <= tol) -> wf ts = true ->
    Forall in_plain annots -> Forall tag_annot annots ->
    exists ps out, annotate is_balanced_html tol src (Some (mk st)) md annots = Ok ps /\
      lex (render ps) = Some out /\ wf out = true /\ text_of out = plain.
  Proof.
    intros Hmd Htol Hwf Hp Ha. unfold annotate. fold ast0.
    assert (Hl : Forall (fun a => in_plain a /\ tag_annot a) (sort_annots annots)).
    { apply sort_annots_Forall. rewrite Forall_forall in *. intros a Hin. split; auto. }
    destruct (arun_LInv tol md Hmd Htol _ ast0 LInv_ast0 Hl) as (s & E & HI).
    rewrite E. cbn [bind].
    destruct (afinish_render s HI) as (out & Hr & Hvo & Hreq & Htx).
    exists (afinish src s), out. split; [reflexivity|]. split; [|split].
    - rewrite Hr. apply lex_unlex. assumption.
    - unfold wf in *. rewrite (Hreq []). exact Hwf.
    - exact Htx.
  Qed.
End C11.

(* ================================================================== *)
(* C11                                                                 *)
(* ================================================================== *)

Lemma c11_common tol md src plain ts st annots :
  md <> Unchecked -> (md = Skip -> 0 <= tol) ->
  c11_setting src plain ts st ->
  Forall (fun a => 0 <= a_start a /\ a_start a < a_end a /\ a_end a <= zlen plain) annots ->
  Forall tag_annot annots ->
  exists ps out, annotate is_balanced_html tol src (Some (mk st)) md annots = Ok ps /\
    lex (render ps) = Some out /\ wf out = true /\ text_of out = plain.
Proof.
  intros Hmd Htol [Hlex Hwf Hplain Hsteps Hins Hemb] Hr Ha.
  apply unlex_lex in Hlex. destruct Hlex as [<- Hv]. subst plain.
  apply (annotate_c11 ts st Hv Hsteps Hins Hemb tol md annots Hmd Htol Hwf); [|exact Ha].
  exact Hr.
Qed.

(* C11, wrap mode *)
Theorem annotate_wrap_wellformed : forall tol src plain ts st annots,
  c11_setting src plain ts st -> plain <> [] ->
  Forall (fun a => 0 <= a_start a /\ a_start a < a_end a /\ a_end a <= zlen plain) annots ->
  Forall tag_annot annots ->
  exists ps out, annotate is_balanced_html tol src (Some (mk st)) Wrap annots = Ok ps /\
    lex (render ps) = Some out /\ wf out = true /\ text_of out = plain.
Proof.
  intros tol src plain ts st annots Hs _ Hr Ha.
  apply (c11_common tol Wrap src plain ts st annots); try assumption; discriminate.
Qed.

(* C11, skip mode *)
Theorem annotate_skip_wellformed : forall tol src plain ts st annots,
  c11_setting src plain ts st -> plain <> [] -> 0 <= tol ->
  Forall (fun a => 0 <= a_start a /\ a_start a < a_end a /\ a_end a <= zlen plain) annots ->
  Forall tag_annot annots ->
  exists ps out, annotate is_balanced_html tol src (Some (mk st)) Skip annots = Ok ps /\
    lex (render ps) = Some out /\ wf out = true /\ text_of out = plain.
Proof.
  intros tol src plain ts st annots Hs _ Htol Hr Ha.
  apply (c11_common tol Skip src plain ts st annots); try assumption; [discriminate|].
  intros _. exact Htol.
Qed.
