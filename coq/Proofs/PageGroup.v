(* Proofs/PageGroup.v -- short-form citation tokens carry a page group (what tok_ok still asks of
   them, Proofs/PipeSpec.v): decided per extractor row by static analysis of the regenerated
   pattern (always_sets on the body of group 1), sound against the declarative semantics with
   captures, lifted through finditer, Token.from_match and tokenize.  Also the shared machinery
   of Proofs/ShortPage.v: finditer is sound for MC, the group-1 shapes, name -> group number. *)
From EV Require Import Base.Str Base.PyVal Regex.Syntax Regex.Decl Regex.Match Regex.MatchSound.
From EV Require Import Regex.C13Check Regex.DeclCap Regex.DeclCapSound.
From EV Require Import Model.Tokenize Model.TokenizeEq Model.Editions Model.Filter Model.Pipeline.
From EV Require Import Model.SearchEngine Model.Extract Model.E2E.
From EV Require Import Proofs.TokenizeProofs Proofs.PipeSpec Proofs.ExtractSpec Proofs.ExtractProofs.
From EV Require Import Proofs.ClosedProofs.
From EV Require Import Gen.Unicode Gen.Lower Gen.ExtractorIndex Gen.ExtractTable.
Close Scope Z_scope.
Close Scope N_scope.
Open Scope nat_scope.

(* ------------------------------------------------------------------ *)
(* 1. finditer is sound for the semantics with captures                 *)
(* ------------------------------------------------------------------ *)
Section FI.
  Variable U0 : utables.

  Lemma match_at_adv_MC : forall ci s r i j c,
    i <= length s -> match_at_adv U0 ci s r i = Some (j, c) -> MC U0 ci s r i [] j c.
  Proof.
    intros ci s r i j c Hi Hm. unfold match_at_adv in Hm.
    destruct (m_MC U0 ci s r i [] _ _ Hi Hm) as [j' [c' [HM Hk]]].
    cbv beta in Hk. destruct (Nat.eqb j' i); [discriminate|].
    injection Hk as Hj Hc. subst j' c'. exact HM.
  Qed.

  Lemma search_adv_MC : forall ci s r pos adv i j c,
    pos <= length s -> search_adv U0 ci s r pos adv = Some (i, j, c) -> MC U0 ci s r i [] j c.
  Proof.
    intros ci s r pos adv i j c Hpos Hs. unfold search_adv in Hs.
    destruct (if adv then match_at_adv U0 ci s r pos else match_at U0 ci s r pos)
      as [[j0 c0]|] eqn:Hfirst.
    - injection Hs as Hi Hj Hc. subst i j0 c0. destruct adv.
      + exact (match_at_adv_MC ci s r pos j c Hpos Hfirst).
      + exact (match_at_MC U0 ci s r pos j c Hpos Hfirst).
    - destruct (Nat.ltb_spec pos (length s)) as [Hlt|Hge]; [|discriminate].
      destruct (search_from_sound U0 ci s r _ (S pos) i j c Hlt Hs) as [_ [Hil [Hm _]]].
      exact (match_at_MC U0 ci s r i j c Hil Hm).
  Qed.

  Lemma finditer_from_MC : forall ci s r fuel pos adv i j c,
    pos <= length s -> In (i, j, c) (finditer_from U0 ci s r fuel pos adv) -> MC U0 ci s r i [] j c.
  Proof.
    intros ci s r fuel. induction fuel as [|f IHf]; intros pos adv i j c Hpos Hin;
      cbn [finditer_from] in Hin.
    - destruct Hin.
    - destruct (search_adv U0 ci s r pos adv) as [[[i0 j0] c0]|] eqn:Hs; [|destruct Hin].
      destruct Hin as [Heq|Hin].
      + injection Heq as H1 H2 H3. subst i0 j0 c0. exact (search_adv_MC ci s r pos adv i j c Hpos Hs).
      + destruct (search_adv_sound U0 ci s r pos adv i0 j0 c0 Hpos Hs) as [_ [_ [_ [Hj0 _]]]].
        exact (IHf j0 _ i j c Hj0 Hin).
  Qed.

  Theorem finditer_MC : forall ci s r i j c,
    In (i, j, c) (finditer U0 ci s r) -> MC U0 ci s r i [] j c.
  Proof.
    intros ci s r i j c Hin. unfold finditer in Hin.
    exact (finditer_from_MC ci s r _ 0 false i j c (Nat.le_0_l _) Hin).
  Qed.
End FI.

(* ------------------------------------------------------------------ *)
(* 2. the body of group 1 in the shapes accepted by group1_total        *)
(* ------------------------------------------------------------------ *)
Definition g1_body (r : re) : option re :=
  match r with
  | Group 1 b => Some b
  | Cat _ (Cat (Group 1 b) _) => Some b
  | Cat _ (Group 1 b) => Some b
  | Cat (Group 1 b) _ => Some b
  | _ => None
  end.

Inductive g1_shape (b : re) : re -> Prop :=
| G1_only : g1_shape b (Group 1 b)
| G1_mid : forall a c, has_group c = false -> g1_shape b (Cat a (Cat (Group 1 b) c))
| G1_end : forall a, g1_shape b (Cat a (Group 1 b))
| G1_begin : forall c, has_group c = false -> g1_shape b (Cat (Group 1 b) c).

Lemma group1_total_shape : forall r,
  group1_total r = true -> exists b, g1_body r = Some b /\ g1_shape b r.
Proof.
  intros r H. unfold group1_total in H.
  repeat match type of H with
         | match ?x with _ => _ end = true => destruct x; try discriminate
         end;
    try (apply andb_true_iff in H; destruct H as [H1 H2]);
    try match goal with H2 : negb _ = true |- _ => apply negb_true_iff in H2 end;
    try match goal with H : negb _ = true |- _ => apply negb_true_iff in H end;
    eexists; (split; [reflexivity|]);
    first [ apply G1_only | apply G1_mid; assumption | apply G1_end | apply G1_begin; assumption ].
Qed.

Lemma has_group_groupless_MC : forall U0 ci s r i c j c',
  has_group r = false -> MC U0 ci s r i c j c' -> c' = c.
Proof.
  intros U0 ci s r i c j c' Hg H.
  destruct (MC_pre U0 ci s _ _ _ _ _ H) as [pre Hpre]. subst c'.
  (* every group number is unmentioned, so pre has no entry at all *)
  assert (Hm : forall n, mentions n r = false).
  { clear H. intros n. induction r; cbn [has_group mentions] in *; try reflexivity.
    - apply orb_false_iff in Hg. rewrite (IHr1 (proj1 Hg)), (IHr2 (proj2 Hg)). reflexivity.
    - apply orb_false_iff in Hg. rewrite (IHr1 (proj1 Hg)), (IHr2 (proj2 Hg)). reflexivity.
    - discriminate.
    - exact (IHr Hg).
    - exact (IHr Hg). }
  destruct pre as [|[n sp] pre]; [reflexivity|].
  pose proof (mentions_sound U0 ci s n _ _ _ _ _ _ (Hm n) H eq_refl) as Hn.
  cbn [cap_get] in Hn. rewrite Nat.eqb_refl in Hn. discriminate.
Qed.

(* a match of a pattern of one of the four shapes: the final captures are group 1's entry on top
   of the captures produced by its body *)
Lemma g1_shape_MC : forall U0 ci s b r i j c,
  g1_shape b r -> MC U0 ci s r i [] j c ->
  exists i1 j1 c0 cb, MC U0 ci s b i1 c0 j1 cb /\ c = (1, (i1, j1)) :: cb.
Proof.
  intros U0 ci s b r i j c Hsh H. destruct Hsh as [|a c3 Hc3|a|c3 Hc3].
  - inversion H; subst. eexists _, _, _, _. split; [eassumption|reflexivity].
  - inversion H as [| | | | | | | |? ? ? j1 ? ? c1 ? Ha Hrest| | | | |]; subst.
    inversion Hrest as [| | | | | | | |? ? ? j2 ? ? c2 ? Hg H3| | | | |]; subst.
    inversion Hg; subst.
    rewrite (has_group_groupless_MC _ _ _ _ _ _ _ _ Hc3 H3).
    eexists _, _, _, _. split; [eassumption|reflexivity].
  - inversion H as [| | | | | | | |? ? ? j1 ? ? c1 ? Ha Hg| | | | |]; subst.
    inversion Hg; subst.
    eexists _, _, _, _. split; [eassumption|reflexivity].
  - inversion H as [| | | | | | | |? ? ? j1 ? ? c1 ? Hg H3| | | | |]; subst.
    inversion Hg; subst.
    rewrite (has_group_groupless_MC _ _ _ _ _ _ _ _ Hc3 H3).
    eexists _, _, _, _. split; [eassumption|reflexivity].
Qed.

(* the number of the FIRST group called `name` (what glookup on t_groups finds) *)
Definition gnum1 (name : str) (names : list (str * nat)) : option nat :=
  match find (fun kn => str_eqb name (fst kn)) names with
  | Some kn => Some (snd kn)
  | None => None
  end.

Lemma glookup_map_names : forall (name : str) (f : nat -> option str) names,
  glookup name (map (fun kn => (fst kn, f (snd kn))) names) =
  match gnum1 name names with Some n => Some (f n) | None => None end.
Proof.
  intros name f names. unfold gnum1.
  induction names as [|kn names IH]; cbn [map glookup find fst snd]; [reflexivity|].
  destruct (str_eqb name (fst kn)); [reflexivity|exact IH].
Qed.

(* ------------------------------------------------------------------ *)
(* 3. every match of a short-form row sets the page group               *)
(* ------------------------------------------------------------------ *)
Definition row_page_set (x : xrow) : bool :=
  match x_kind (snd x) with
  | KCitation =>
      if x_short (snd x) then
        group1_total (row_re (fst x)) &&
        match gnum1 g_page (x_names (snd x)), g1_body (row_re (fst x)) with
        | Some pg, Some b => negb (Nat.eqb pg 1) && always_sets pg b
        | _, _ => false
        end
      else true
  | _ => true
  end.

Definition page_set (t : tok) : Prop :=
  t_kind t = KCitation -> t_short t = true ->
  exists pg, glookup g_page (t_groups t) = Some (Some pg).

Theorem tokens_of_page_set : forall U0 x s t,
  row_page_set x = true -> In t (tokens_of U0 x s) -> page_set t.
Proof.
  intros U0 x s t Hrow Hin Hk Hs.
  destruct (tokens_of_inv U0 x s t Hin) as [i [j [c [a1 [b1 [Hf [Hc1 Ht]]]]]]]. subst t.
  cbn [t_kind t_short t_groups t_data] in *.
  unfold row_page_set in Hrow. rewrite Hk, Hs in Hrow.
  apply andb_true_iff in Hrow. destruct Hrow as [Hg1 Hrow].
  destruct (gnum1 g_page (x_names (snd x))) as [pg|] eqn:Hpg; [|discriminate].
  destruct (group1_total_shape _ Hg1) as [bd [Hb Hsh]]. rewrite Hb in Hrow.
  apply andb_true_iff in Hrow. destruct Hrow as [Hne Hsets].
  apply negb_true_iff in Hne.
  pose proof (finditer_MC U0 _ _ _ _ _ _ Hf) as HMC.
  destruct (g1_shape_MC U0 _ _ _ _ _ _ _ Hsh HMC) as [i1 [j1 [c0 [cb [Hbody Hc]]]]]. subst c.
  destruct (always_sets_sound U0 _ s pg _ _ _ _ _ Hsets Hbody) as [pre [[a b] [Hpre Hget]]].
  assert (Hcap : cap_get pg ((1, (i1, j1)) :: cb) = Some (a, b)).
  { cbn [cap_get]. rewrite Hne. rewrite Hpre, DeclCapSound.cap_get_app, Hget. reflexivity. }
  exists (slice s a b).
  rewrite (glookup_map_names g_page (group_text s ((1, (i1, j1)) :: cb))), Hpg.
  unfold group_text. rewrite Hcap. reflexivity.
Qed.

Lemma page_set_merge : forall a b m, page_set a -> page_set b -> merge a b = Some m -> page_set m.
Proof.
  intros a b m Ha _ Hm. destruct (merge_kind_groups a b m Hm) as [Hk [Hg Hs]].
  unfold page_set in *. rewrite Hk, Hg, Hs. exact Ha.
Qed.

Theorem tokenize_extract_page_set : forall U0 table s nominative,
  (forall x, In x table -> row_page_set x = true) ->
  forall k t, nth_error (fst (tokenize s nominative (extract_with U0 table s))) k = Some (T t) ->
  page_set t.
Proof.
  intros U0 table s nominative Hrows k t Hk.
  apply (tokenize_stream_pred s nominative page_set page_set_merge (extract_with U0 table s))
    with (k := k); [|exact Hk].
  apply Forall_forall. intros t' Hin. unfold extract_with in Hin. apply in_flat_map in Hin.
  destruct Hin as [x [Hx Hin]]. exact (tokens_of_page_set U0 x s t' (Hrows x Hx) Hin).
Qed.

(* every short-form row of the generated table passes, the 11 rows of Proofs/ShortPage.v
   included (kernel computation, about 2 s) *)
Lemma xtable_row_page_set_refl : forallb row_page_set xtable = true.
Proof. vm_compute. reflexivity. Qed.

Theorem tokenize_text_page_set_all : forall s k t,
  nth_error (fst (tokenize_text s)) k = Some (T t) ->
  t_kind t = KCitation -> t_short t = true ->
  exists pg, glookup g_page (t_groups t) = Some (Some pg).
Proof.
  intros s k t Hk.
  assert (Hrows : forall x, In x (get_extractors_ac xtable s (lower_str lower1 s)) ->
                            row_page_set x = true).
  { intros x Hx.
    exact (proj1 (forallb_forall _ _) xtable_row_page_set_refl x (in_get_extractors_ac _ _ _ _ Hx)). }
  rewrite tokenize_text_unfold in Hk.
  exact (tokenize_extract_page_set U _ s _ Hrows k t Hk).
Qed.

Print Assumptions finditer_MC.
Print Assumptions tokens_of_page_set.
Print Assumptions tokenize_text_page_set_all.
