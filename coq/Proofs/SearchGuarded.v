(* Proofs/SearchGuarded.v -- the GUARDED oracle contracts (Proofs/PipeSpec.v: search_ok_g,
   Proofs/PipeMeta.v: defyear_ok_g) hold OUTRIGHT for the concrete engine
   E := engine_search UM meta_table with the pipeline's own whitespace test is_space_gen:
   no premise about the metadata searches is left. *)
From EV Require Import Base.Str Base.PyVal Regex.Syntax Regex.Decl Regex.Match Regex.MatchSound.
From EV Require Import Regex.DeclCap Regex.DeclCapSound Regex.DeclCapOrder Regex.EngineMono.
From EV Require Import Model.Tokenize Model.Editions Model.Filter Model.Pipeline Model.SearchEngine Model.E2E.
From EV Require Import Proofs.PipeSpec Proofs.PipeMeta Proofs.SearchEngineProofs.
From EV Require Import Proofs.SearchDischarge Proofs.SearchDischarge2.
From EV Require Import Gen.Unicode Gen.MetaRegex.
Close Scope Z_scope.
Close Scope N_scope.
Open Scope nat_scope.

(* ---- whitespace tables ---- *)
Lemma newline_is_space : is_space_gen 10%N = true.
Proof. vm_compute. reflexivity. Qed.

Lemma ws_clean_no_newline : forall w, ws_clean is_space_gen w -> ~ In 10%N w.
Proof.
  intros w H Hin. pose proof (H 10%N Hin newline_is_space) as H10. discriminate H10.
Qed.

(* every range of sub is inside a range of sup *)
Definition ranges_incl (sub sup : list (N * N)) : bool :=
  forallb (fun r => existsb (fun r' => N.leb (fst r') (fst r) && N.leb (snd r) (snd r')) sup) sub.

Lemma ranges_incl_sound : forall sub sup c,
  ranges_incl sub sup = true -> in_ranges sub c = true -> in_ranges sup c = true.
Proof.
  intros sub sup c Hi Hc. unfold in_ranges in *. apply existsb_exists in Hc.
  destruct Hc as [r [Hr Hrc]]. unfold ranges_incl in Hi.
  pose proof (proj1 (forallb_forall _ _) Hi r Hr) as Hr'. cbv beta in Hr'.
  apply existsb_exists in Hr'. destruct Hr' as [r' [Hr'in Hr'c]].
  apply existsb_exists. exists r'. split; [exact Hr'in|].
  apply andb_true_iff in Hrc. destruct Hrc as [H1 H2].
  apply andb_true_iff in Hr'c. destruct Hr'c as [H3 H4].
  apply N.leb_le in H1, H2, H3, H4. apply andb_true_iff. split; apply N.leb_le; lia.
Qed.

(* the regex module's \s is included in str.isspace (which has U+001C..U+001F in addition) *)
Lemma space_rx_incl : ranges_incl tbl_space_rx tbl_space = true.
Proof. vm_compute. reflexivity. Qed.

Lemma rx_space_is_space : forall x,
  set_mem UM false false [SCat CSpace] x = true -> is_space_gen x = true.
Proof.
  intros x H.
  change (set_mem UM false false [SCat CSpace] x)
    with (xorb false (in_ranges tbl_space_rx x || false)) in H.
  destruct (in_ranges tbl_space_rx x) eqn:E0; [|discriminate H].
  exact (ranges_incl_sound _ _ x space_rx_incl E0).
Qed.

(* ---- the backward patterns end in `$` ---- *)
Lemma bwd_ends_eol : forall p, bwd_pat p = true -> ends_eol (fst (meta_table p)) = true.
Proof. intros p Hp. destruct p; try discriminate Hp; vm_compute; reflexivity. Qed.

Theorem E_bwd_end_g : forall p w m, E p w = Some m -> bwd_pat p = true ->
  ws_clean is_space_gen w -> m_end m = length w.
Proof.
  intros p w m H Hp Hclean.
  destruct (engine_search_inv UM meta_table p w m H) as [i [j [c [Hm [HM _]]]]]. subst m.
  cbn [to_mres m_end].
  pose proof (ends_eol_sound UM false w _ i j (bwd_ends_eol p Hp) HM) as Heol.
  destruct (at_eol_inv w j Heol) as [Hj|[_ Hnl]]; [exact Hj|].
  exfalso. exact (ws_clean_no_newline w Hclean (nth_error_In _ _ Hnl)).
Qed.

Theorem E_search_ok_g : search_ok_g is_space_gen E.
Proof.
  intros p w m H.
  split; [exact (E_mres_ok p w m H)|].
  split; [intros Hp; exact (E_fwd_start p w m Hp H)|].
  split; [intros Hp Hc; exact (E_bwd_end_g p w m H Hp Hc)|].
  split; [intros Hp; exact (E_pin_at_start p w m Hp H)|].
  split; [intros Hp; subst p; exact (E_parenthetical_last w m H)|].
  intros Hp. subst p. exact (E_short_ante w m H).
Qed.

(* ---- DEFENDANT_YEAR_REGEX: group 1 (defendant) is any-star, then a whitespace character,
   the parenthesised four-digit year (group 2) and the end anchor ---- *)
Definition defyear_rest : re := match meta_PDefYear with Cat _ r => r | _ => Fail end.
Definition defyear_rest2 : re := match defyear_rest with Cat _ r => r | _ => Fail end.

Lemma defyear_shape : meta_PDefYear = Cat (Group 1 (Rep 0 None Any)) defyear_rest.
Proof. reflexivity. Qed.

Lemma defyear_rest_shape : defyear_rest = Cat (Set_ false [SCat CSpace]) defyear_rest2.
Proof. reflexivity. Qed.

Lemma defyear_rest_no_group1 : mentions 1 defyear_rest = false.
Proof. vm_compute. reflexivity. Qed.

Lemma defyear_defendant_num : gnum g_defendant meta_PDefYear_names = Some 1.
Proof. vm_compute. reflexivity. Qed.

Lemma MC_cat_inv : forall U0 ci s a b i c j c',
  MC U0 ci s (Cat a b) i c j c' -> exists j1 c1, MC U0 ci s a i c j1 c1 /\ MC U0 ci s b j1 c1 j c'.
Proof. intros U0 ci s a b i c j c' H. inversion H; subst. eexists _, _. split; eassumption. Qed.

Lemma MC_set_inv : forall U0 ci s neg items i c j c',
  MC U0 ci s (Set_ neg items) i c j c' ->
  exists x, nth_error s i = Some x /\ set_mem U0 ci neg items x = true.
Proof. intros U0 ci s neg items i c j c' H. inversion H; subst. eexists. split; eassumption. Qed.

Theorem E_defyear_ok_g : defyear_ok_g is_space_gen E.
Proof.
  intros w m Hclean [c0 [r0 [Hw Hc0]]] HE _.
  unfold E in HE. rewrite engine_search_not_year in HE by discriminate.
  cbn [meta_table fst snd] in HE.
  destruct (search UM false w meta_PDefYear) as [[[i j] c]|] eqn:Hs; [|discriminate HE].
  injection HE as HE. subst m. unfold search in Hs.
  destruct (search_from_sound UM false w _ _ 0 i j c (Nat.le_0_l _) Hs) as [_ [Hil [Hm Hleft]]].
  rewrite defyear_shape in Hm. unfold match_at in Hm. rewrite m_cat, m_group in Hm.
  (* the defendant group: .* from i to k *)
  destruct (m_MC UM false w (Rep 0 None Any) i [] _ _ Hil Hm) as [k [c' [HMCrep Hk]]].
  cbv beta in Hk.
  pose proof (groupless_sound UM false w _ _ _ _ _ (eq_refl : groupless (Rep 0 None Any) = true) HMCrep)
    as Hc'. subst c'.
  destruct (MC_bounds UM false w _ _ _ _ _ HMCrep) as [Hik Hkl].
  (* the rest of the pattern from k *)
  destruct (m_MC UM false w defyear_rest k _ _ _ Hkl Hk) as [j' [c'' [HMCrest Hfin]]].
  injection Hfin as Hj Hc. subst j' c''.
  assert (Hcap : cap_get 1 c = Some (i, k)).
  { destruct (MC_pre UM false w _ _ _ _ _ HMCrest) as [pre Hpre].
    rewrite Hpre, DeclCapSound.cap_get_app.
    rewrite (mentions_sound UM false w 1 _ _ _ _ _ _ defyear_rest_no_group1 HMCrest Hpre).
    reflexivity. }
  assert (Hg : mget (to_mres meta_PDefYear_names (i, j, c)) w g_defendant = Some (slice w i k)).
  { unfold mget. rewrite gspan_to_mres, defyear_defendant_num, Hcap. reflexivity. }
  change (truthy_o (mget (to_mres meta_PDefYear_names (i, j, c)) w g_defendant) = true).
  rewrite Hg.
  (* the defendant is non-empty *)
  assert (Hlt : i < k).
  { destruct (Nat.eq_dec k i) as [Hki|Hki]; [|lia]. exfalso. subst k.
    (* w[i] is matched by \s *)
    rewrite defyear_rest_shape in HMCrest.
    destruct (MC_cat_inv _ _ _ _ _ _ _ _ _ HMCrest) as [j1 [c1 [Hset _]]].
    destruct (MC_set_inv _ _ _ _ _ _ _ _ _ Hset) as [x [Hx Hmem]].
    pose proof (rx_space_is_space x Hmem) as Hxs.
    destruct i as [|p].
    - (* the window starts with a non-whitespace character *)
      rewrite Hw in Hx. cbn [nth_error] in Hx. injection Hx as Hx. subst x.
      rewrite Hc0 in Hxs. discriminate Hxs.
    - (* leftmost: the match attempt at p = i - 1 would have succeeded *)
      pose proof (Hleft p (Nat.le_0_l _) (Nat.lt_succ_diag_r p)) as Hnone.
      revert Hnone. change (match_at UM false w meta_PDefYear p <> None).
      rewrite defyear_shape. unfold match_at. rewrite m_cat, m_group.
      destruct (nth_error w p) as [y|] eqn:Hy.
      2:{ apply nth_error_None in Hy. lia. }
      apply (any_star_step UM false w p y); [exact Hy| |].
      + destruct (N.eqb_spec y 10) as [Hy10|_]; [|reflexivity].
        exfalso. subst y. exact (ws_clean_no_newline w Hclean (nth_error_In _ _ Hy)).
      + cbv beta.
        apply (m_mono UM false w defyear_rest (S p) [(1, (S p, S p))] [(1, (p, S p))]
                 (fun j c => Some (j, c)) (fun j c => Some (j, c))).
        * intros j0 d1 d2 _. discriminate.
        * rewrite Hk. discriminate. }
  destruct (slice w i k) as [|x l] eqn:Hsl; [|reflexivity].
  exfalso. pose proof (slice_length w i k Hik Hkl) as Hlen. rewrite Hsl in Hlen. cbn in Hlen. lia.
Qed.

Print Assumptions E_search_ok_g.
Print Assumptions E_defyear_ok_g.
