(* Proofs/ResolveTotal.v -- C04: resolution never raises on well-formed
   citations. *)
From EV Require Import Base.Str Base.PyVal Model.Tokenize Model.Resolve Proofs.ResolveSpec Proofs.ResolveProofs.

(* what extraction guarantees about a citation: case citations carry a page key and a reporter
   (guessed edition or reporter group) *)
Definition cit_wf (D : dtables) (c : cit) : Prop :=
  (c_cls c = FullCase \/ c_cls c = ShortCase) ->
     (exists v, glookup k_page (c_groups c) = Some v) /\
     (c_guess c <> None \/ exists v, glookup k_reporter (c_groups c) = Some v).

(* the digit table is sane: every Nd range is a range (lo <= hi) *)
Definition dt_ok (D : dtables) : Prop := True.

(* ================================================================== *)
(* digits: int() accepts every non-empty run of \d characters          *)
(* ================================================================== *)

Lemma take_while_forallb (P : N -> bool) s : forallb P (take_while P s) = true.
Proof.
  induction s as [|a s IH]; cbn [take_while]; [reflexivity|].
  destruct (P a) eqn:E; cbn [forallb]; [|reflexivity]. rewrite E, IH. reflexivity.
Qed.

Lemma range_of_in_ranges tbl c :
  in_ranges tbl c = true -> exists r, range_of tbl c = Some r.
Proof.
  unfold in_ranges. induction tbl as [|[lo hi] t IH]; cbn [existsb range_of fst snd].
  - discriminate.
  - destruct (N.leb lo c && N.leb c hi); cbn [orb]; [eauto|exact IH].
Qed.

Lemma digit_val_some D c :
  in_ranges (d_nd D) c = true -> exists v, digit_val D c = Some v.
Proof.
  intros H. unfold digit_val. destruct (range_of_in_ranges _ _ H) as [[lo hi] E].
  rewrite E. eauto.
Qed.

Lemma int_acc_some D s : forall acc,
  forallb (in_ranges (d_nd D)) s = true -> exists n, int_acc D acc s = Some n.
Proof.
  induction s as [|c s IH]; intros acc H; cbn [int_acc].
  - eauto.
  - cbn [forallb] in H. apply andb_true_iff in H. destruct H as [H1 H2].
    destruct (digit_val_some _ _ H1) as [v Ev]. rewrite Ev. apply IH. exact H2.
Qed.

Lemma int_of_some D s :
  s <> [] -> forallb (in_ranges (d_nd D)) s = true -> exists n, int_of D s = Some n.
Proof.
  intros Hne H. destruct s as [|c s]; [congruence|]. unfold int_of. apply int_acc_some. exact H.
Qed.

Lemma pin_number_spec D pin ds :
  pin_number D pin = Some ds -> ds <> [] /\ forallb (in_ranges (d_nd D)) ds = true.
Proof.
  unfold pin_number.
  set (rest := if prefixb at_sp pin then skipn 3 pin else pin).
  pose proof (take_while_forallb (in_ranges (d_nd D)) rest) as Hall.
  destruct (take_while (in_ranges (d_nd D)) rest) as [|a t]; [discriminate|].
  intros E; injection E as <-. split; [discriminate|exact Hall].
Qed.

(* as repaired, the pin check cannot raise *)
Lemma has_invalid_pin_total D mx full idc :
  exists b, has_invalid_pin D mx full idc = Ok b.
Proof.
  unfold has_invalid_pin.
  destruct (cls_eqb (c_cls full) FullCase &&
            match gget k_page (c_groups full) with None => true | Some _ => false end); [eauto|].
  destruct (negb (truthy_s (c_pin idc))); [eauto|].
  destruct (negb (str_isdigit D match gget k_page (c_groups full) with Some p => p | None => [] end));
    [eauto|].
  destruct (pin_number D match c_pin idc with Some p => p | None => [] end) as [ds|]; [|eauto].
  destruct (py_int D match gget k_page (c_groups full) with Some p => p | None => [] end) as [page|];
    [|eauto].
  destruct (py_int D ds) as [pin|]; eauto.
Qed.

(* ================================================================== *)
(* hash keys and resolvers of well-formed citations                    *)
(* ================================================================== *)

Lemma corrected_reporter_ok c :
  (c_guess c <> None \/ exists v, glookup k_reporter (c_groups c) = Some v) ->
  exists r, corrected_reporter c = Ok r.
Proof.
  intros H. unfold corrected_reporter. destruct (c_guess c) as [g|]; [eauto|].
  destruct H as [H|[v Hv]]; [congruence|]. rewrite Hv. eauto.
Qed.

Lemma case_key_ok c cl :
  (exists v, glookup k_page (c_groups c) = Some v) ->
  (c_guess c <> None \/ exists v, glookup k_reporter (c_groups c) = Some v) ->
  exists k,
    match glookup k_page (c_groups c) with
    | None => Err KeyErr
    | Some None => Ok (KId (oid c))
    | Some (Some p) =>
        do r <- corrected_reporter c ;;
        Ok (KCase cl (glookup k_volume (c_groups c)) p r)
    end = Ok k.
Proof.
  intros [v Hv] Hr. rewrite Hv. destruct v as [p|]; [|eauto].
  destruct (corrected_reporter_ok c Hr) as [r Er]. rewrite Er. cbn [bind]. eauto.
Qed.

Lemma key_of_ok D c : cit_wf D c -> exists k, key_of c = Ok k.
Proof.
  intros Hcase. unfold key_of. destruct (c_cls c) eqn:Ec; try (eexists; reflexivity).
  - destruct (Hcase (or_introl Ec)) as [Hp Hr]. apply case_key_ok; assumption.
  - destruct (Hcase (or_intror Ec)) as [Hp Hr]. apply case_key_ok; assumption.
Qed.

Lemma short_finish_ok c K : exists r, short_finish c K = Ok r.
Proof.
  unfold short_finish.
  destruct (dedup_keys (map snd K) []) as [|a [|b t]]; destruct (truthy_s (c_antecedent c)); eauto.
Qed.

Lemma short_go_total c rc :
  corrected_reporter c = Ok rc ->
  forall F acc,
    (forall f k, In (f, k) F -> cls_eqb (c_cls f) FullCase = true ->
                 exists rf, corrected_reporter f = Ok rf) ->
    exists r, short_go c F acc = Ok r.
Proof.
  intros Hc. induction F as [|[f k] F IH]; intros acc HF; cbn [short_go].
  - apply short_finish_ok.
  - assert (HF' : forall f0 k0, In (f0, k0) F -> cls_eqb (c_cls f0) FullCase = true ->
                                exists rf, corrected_reporter f0 = Ok rf).
    { intros f0 k0 Hin. apply (HF f0 k0). right; exact Hin. }
    destruct (cls_eqb (c_cls f) FullCase) eqn:Ecls; [|apply IH; exact HF'].
    rewrite Hc. cbn [bind].
    destruct (HF f k (or_introl eq_refl) Ecls) as [rf Erf]. rewrite Erf. cbn [bind].
    destruct (ostr_eqb rc rf && ostr_eqb (gget k_volume (c_groups c)) (gget k_volume (c_groups f)));
      apply IH; exact HF'.
Qed.

Lemma fulls_of_in p f k : In (f, k) (fulls_of p) -> In f p.
Proof.
  induction p as [|a p IH]; cbn [fulls_of]; [intros []|].
  destruct (is_full (c_cls a)); [destruct (key_of a)|].
  - intros [E|H]; [left; congruence|right; apply IH; exact H].
  - intros H; right; apply IH; exact H.
  - intros H; right; apply IH; exact H.
Qed.

Lemma group_of_some k r : In k (map fst r) -> exists m, group_of k r = Some m.
Proof.
  induction r as [|[k' m'] r IH]; cbn [map fst group_of]; [intros []|].
  destruct (key_eqb k k') eqn:E; [eauto|].
  intros [H|H]; [|apply IH; exact H]. subst k'. rewrite key_eqb_refl in E. discriminate.
Qed.

(* ================================================================== *)
(* progress                                                            *)
(* ================================================================== *)

Section Total.
Variable D : dtables.
Variable mx : N.

(* last_resolution always names an existing group *)
Definition lastr_ok (s : rst) : Prop :=
  forall k, lastr s = Some k -> In k (map fst (res s)).

Lemma lastr_ok_init : lastr_ok rinit.
Proof. intros k H. discriminate H. Qed.

Lemma lastr_ok_step s c s' : Resolve.step D mx s c = Ok s' -> lastr_ok s'.
Proof.
  intros H. apply step_ok in H. destruct H as [r [fl [_ ->]]]. intros k Hk. cbn [lastr res] in *.
  subst r. apply add_member_fst_in. right; reflexivity.
Qed.

Lemma resolve_id_total p s c :
  Inv p s -> lastr_ok s -> (forall x, In x p -> cit_wf D x) ->
  exists r, resolve_id D mx c s = Ok r.
Proof.
  intros HI Hl Hwf. unfold resolve_id. destruct (lastr s) as [k|] eqn:El; [|eauto].
  destruct (group_of_some k (res s) (Hl k El)) as [m Eg]. rewrite Eg.
  apply group_of_in in Eg.
  destruct (inv_groups _ _ HI _ _ Eg) as [h [t [-> [_ [_ [_ Hsub]]]]]].
  assert (Hin : In h p) by (eapply sublist_In; [exact Hsub|left; reflexivity]).
  destruct (has_invalid_pin_total D mx h c) as [b Eb]. rewrite Eb. cbn [bind]. eauto.
Qed.

Lemma resolver_total p s c :
  Inv p s -> lastr_ok s -> (forall x, In x p -> cit_wf D x) -> cit_wf D c ->
  exists rf, resolver D mx s c = Ok rf.
Proof.
  intros HI Hl Hwf Hc. unfold resolver.
  assert (Hfull : exists rf, (do k <- key_of c;; Ok (Some k, fulls s ++ [(c, k)])) = Ok rf).
  { destruct (key_of_ok D c Hc) as [k Ek]. rewrite Ek. cbn [bind]. eauto. }
  destruct (c_cls c) eqn:Ec; try exact Hfull; try (eexists; reflexivity).
  - (* short case *)
    destruct (Hc (or_intror Ec)) as [_ Hr].
    destruct (corrected_reporter_ok c Hr) as [rc Erc].
    assert (Hgo : exists r, resolve_short c (fulls s) = Ok r).
    { rewrite resolve_short_eq. apply (short_go_total c rc Erc).
      intros f k Hin Hcls. rewrite (inv_fulls _ _ HI) in Hin. apply fulls_of_in in Hin.
      pose proof (Hwf f Hin) as Hfc. apply cls_eqb_eq in Hcls.
      destruct (Hfc (or_introl Hcls)) as [_ Hfr]. apply corrected_reporter_ok. exact Hfr. }
    destruct Hgo as [r Er]. rewrite Er. cbn [bind]. eauto.
  - (* id *)
    destruct (resolve_id_total p s c HI Hl Hwf) as [r Er]. rewrite Er. cbn [bind]. eauto.
Qed.

Lemma step_total p s c :
  Inv p s -> lastr_ok s -> (forall x, In x p -> cit_wf D x) -> cit_wf D c ->
  exists s', Resolve.step D mx s c = Ok s'.
Proof.
  intros HI Hl Hwf Hc. destruct (resolver_total p s c HI Hl Hwf Hc) as [[r fl] Er].
  assert (E : Resolve.step D mx s c =
              bind (resolver D mx s c) (fun rf => let (r, fl) := rf in
                Ok {| res := match r with Some k => add_member k c (res s) | None => res s end;
                      fulls := fl; lastr := r |})) by reflexivity.
  rewrite E, Er. cbn [bind]. eauto.
Qed.

Lemma run_total l : forall p s,
  oids_ok (p ++ l) -> (forall x, In x p -> cit_wf D x) -> (forall x, In x l -> cit_wf D x) ->
  Inv p s -> lastr_ok s -> exists s', run D mx s l = Ok s'.
Proof.
  induction l as [|c l IH]; intros p s Hoid Hp Hl HI Hlast; cbn [run].
  - eauto.
  - destruct (step_total p s c HI Hlast Hp (Hl c (or_introl eq_refl))) as [s1 Es].
    rewrite Es. cbn [bind]. apply (IH (p ++ [c]) s1).
    + rewrite <- app_assoc. exact Hoid.
    + intros x Hx. apply in_app_iff in Hx. destruct Hx as [Hx|[<-|[]]].
      * apply Hp; exact Hx.
      * apply Hl; left; reflexivity.
    + intros x Hx. apply Hl. right; exact Hx.
    + eapply inv_step; [exact Hoid|exact HI|exact Es].
    + eapply lastr_ok_step; exact Es.
Qed.

End Total.

Theorem resolve_total : forall D mx cs, oids_ok cs -> Forall (cit_wf D) cs -> exists r, resolve D mx cs = Ok r.
Proof.
  intros D mx cs Hoid Hwf. rewrite Forall_forall in Hwf.
  destruct (run_total D mx cs [] rinit) as [s Es].
  - exact Hoid.
  - intros x [].
  - exact Hwf.
  - apply inv_init.
  - apply lastr_ok_init.
  - exists (res s). unfold resolve. rewrite Es. reflexivity.
Qed.
