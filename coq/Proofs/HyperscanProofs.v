(* Proofs/HyperscanProofs.v -- properties of Model/Hyperscan.v: shape of the
   UTF-8 encoding, the byte-offset -> str-offset table, the filtering of hits,
   the re-match, and the cache state machine.  Standard library only. *)
From EV Require Import Base.Str Base.PyVal Model.Hyperscan.
From Coq Require Import Lia ZArith NArith.
From Coq Require Import ZifyN ZifyBool Sorted.
Ltac Zify.zify_post_hook ::= Z.div_mod_to_equations.
Local Open Scope nat_scope.

Definition valid_text (text : str) : Prop := Forall valid_cp text.

(* ================================================================== *)
(* 1. shape of the encoding of one character                          *)
(* ================================================================== *)

Ltac ltb_cases :=
  repeat match goal with
         | |- context [N.ltb ?a ?b] => destruct (N.ltb_spec a b)
         end; try reflexivity; try lia.

Lemma is_cont_intro b : (128 <= b)%N -> (b < 192)%N -> is_cont b = true.
Proof.
  intros H1 H2. unfold is_cont. apply andb_true_iff; split.
  - apply N.leb_le; exact H1.
  - apply N.ltb_lt; exact H2.
Qed.

Lemma seq_len_1 b : (b < 128)%N -> seq_len b = Some 1.
Proof. intros H. unfold seq_len. ltb_cases. Qed.
Lemma seq_len_2 b : (192 <= b)%N -> (b < 224)%N -> seq_len b = Some 2.
Proof. intros H1 H2. unfold seq_len. ltb_cases. Qed.
Lemma seq_len_3 b : (224 <= b)%N -> (b < 240)%N -> seq_len b = Some 3.
Proof. intros H1 H2. unfold seq_len. ltb_cases. Qed.
Lemma seq_len_4 b : (240 <= b)%N -> (b < 248)%N -> seq_len b = Some 4.
Proof. intros H1 H2. unfold seq_len. ltb_cases. Qed.

(* every character is encoded as a lead byte followed by continuation bytes, 1..4 bytes in all *)
Theorem enc_shape : forall c, valid_cp c ->
  exists b rest, enc c = b :: rest /\ seq_len b = Some (S (length rest)) /\ forallb is_cont rest = true.
Proof.
  intros c Hc. unfold valid_cp in Hc. unfold enc.
  destruct (N.ltb_spec c 128) as [H1|H1].
  { exists c, []. split; [reflexivity|]. split; [|reflexivity].
    apply seq_len_1; exact H1. }
  destruct (N.ltb_spec c 2048) as [H2|H2].
  { eexists; eexists. split; [reflexivity|]. split.
    - apply seq_len_2; lia.
    - cbn [forallb]. rewrite is_cont_intro by lia. reflexivity. }
  destruct (N.ltb_spec c 65536) as [H3|H3].
  { eexists; eexists. split; [reflexivity|]. split.
    - apply seq_len_3; lia.
    - cbn [forallb]. rewrite !is_cont_intro by lia. reflexivity. }
  eexists; eexists. split; [reflexivity|]. split.
  - apply seq_len_4; lia.
  - cbn [forallb]. rewrite !is_cont_intro by lia. reflexivity.
Qed.

Lemma enc_nonempty c : 1 <= length (enc c).
Proof.
  unfold enc. destruct (c <? 128)%N, (c <? 2048)%N, (c <? 65536)%N; cbn [length]; lia.
Qed.

(* ================================================================== *)
(* 2. utf8, bpos                                                       *)
(* ================================================================== *)

Lemma utf8_app a b : utf8 (a ++ b) = utf8 a ++ utf8 b.
Proof. unfold utf8. apply flat_map_app. Qed.

Lemma utf8_cons c l : utf8 (c :: l) = enc c ++ utf8 l.
Proof. reflexivity. Qed.

Lemma utf8_length_ge l : length l <= length (utf8 l).
Proof.
  induction l as [|c l IH]; [apply Nat.le_refl|].
  rewrite utf8_cons, app_length. pose proof (enc_nonempty c). cbn [length]. lia.
Qed.

Lemma bpos_add text i j : i <= j ->
  bpos text j = bpos text i + length (utf8 (slice text i j)).
Proof.
  intros Hij. unfold bpos.
  rewrite <- (firstn_slice_skipn text i j) by exact Hij.
  rewrite utf8_app, app_length. reflexivity.
Qed.

Lemma bpos_mono text i j : i <= j -> bpos text i <= bpos text j.
Proof. intros Hij. rewrite (bpos_add text i j Hij). lia. Qed.

(* byte positions of character boundaries are strictly increasing *)
Theorem bpos_strict : forall text i j, (i < j <= length text)%nat -> (bpos text i < bpos text j)%nat.
Proof.
  intros text i j Hij. rewrite (bpos_add text i j) by lia.
  pose proof (utf8_length_ge (slice text i j)) as H.
  rewrite slice_length in H by lia. lia.
Qed.

Theorem bpos_end : forall text, bpos text (length text) = length (utf8 text).
Proof. intros text. unfold bpos. rewrite firstn_all. reflexivity. Qed.

Lemma bpos_inj text i j : i <= length text -> j <= length text ->
  bpos text i = bpos text j -> i = j.
Proof.
  intros Hi Hj E.
  destruct (Nat.lt_trichotomy i j) as [H|[H|H]]; [|exact H|].
  - pose proof (bpos_strict text i j). lia.
  - pose proof (bpos_strict text j i). lia.
Qed.

Lemma bpos_le_inv text i j : i <= length text -> j <= length text ->
  bpos text i <= bpos text j -> i <= j.
Proof.
  intros Hi Hj H. destruct (Nat.le_gt_cases i j) as [L|L]; [exact L|].
  pose proof (bpos_strict text j i). lia.
Qed.

Lemma bpos_at l1 l2 : bpos (l1 ++ l2) (length l1) = length (utf8 l1).
Proof.
  unfold bpos. rewrite firstn_app, firstn_all, Nat.sub_diag, firstn_O, app_nil_r. reflexivity.
Qed.

Lemma bpos_0 text : bpos text 0 = 0.
Proof. reflexivity. Qed.

Lemma slice_mid {A} (a b c : list A) :
  slice (a ++ b ++ c) (length a) (length a + length b) = b.
Proof.
  unfold slice. rewrite skipn_app, skipn_all, Nat.sub_diag. cbn [skipn app].
  replace (length a + length b - length a) with (length b) by lia.
  rewrite firstn_app, firstn_all, Nat.sub_diag, firstn_O. apply app_nil_r.
Qed.

(* the decoded byte slice is the str slice *)
Theorem slice_utf8 : forall text s e, (s <= e <= length text)%nat ->
  slice (utf8 text) (bpos text s) (bpos text e) = utf8 (slice text s e).
Proof.
  intros text s e Hse.
  rewrite (bpos_add text s e) by lia.
  pose proof (firstn_skipn e text) as E.
  rewrite <- (firstn_slice_skipn text s e) in E by lia.
  rewrite <- app_assoc in E.
  unfold bpos.
  replace (utf8 text) with (utf8 (firstn s text) ++ utf8 (slice text s e) ++ utf8 (skipn e text)).
  - apply slice_mid.
  - rewrite <- !utf8_app. rewrite E. reflexivity.
Qed.

(* ================================================================== *)
(* 3. decoding                                                         *)
(* ================================================================== *)

Lemma dec_len_fuel : forall f1 f2 bs, length bs <= f1 -> length bs <= f2 ->
  dec_len f1 bs = dec_len f2 bs.
Proof.
  induction f1 as [|f1 IH]; intros f2 bs H1 H2.
  - destruct bs; [|cbn in H1; lia]. destruct f2; reflexivity.
  - destruct bs as [|b rest]; [destruct f2; reflexivity|].
    destruct f2 as [|f2]; [cbn in H2; lia|].
    cbn [dec_len]. destruct (seq_len b) as [n|]; [|reflexivity].
    destruct (_ && _); [|reflexivity].
    cbn [length] in H1, H2.
    rewrite (IH f2); [reflexivity| |]; rewrite skipn_length; lia.
Qed.

Lemma dec_len_decode fuel bs : length bs <= fuel -> dec_len fuel bs = decode_len bs.
Proof. intros H. unfold decode_len. apply dec_len_fuel; [exact H|apply Nat.le_refl]. Qed.

Lemma decode_len_nil : decode_len [] = Some 0.
Proof. reflexivity. Qed.

Lemma decode_len_step c bs : valid_cp c ->
  decode_len (enc c ++ bs) =
  match decode_len bs with Some k => Some (S k) | None => None end.
Proof.
  intros Hc. destruct (enc_shape c Hc) as (b & rs & E & Hs & Hf). rewrite E.
  unfold decode_len at 1. cbn [app length dec_len]. rewrite Hs.
  replace (S (length rs) - 1) with (length rs) by lia.
  rewrite firstn_app, firstn_all, Nat.sub_diag, firstn_O, app_nil_r, Hf.
  rewrite skipn_app, skipn_all, Nat.sub_diag. cbn [skipn app].
  assert (S (length rs) <=? S (length (rs ++ bs)) = true) as ->
    by (apply Nat.leb_le; rewrite app_length; lia).
  cbn [andb]. rewrite dec_len_decode by (rewrite app_length; lia). reflexivity.
Qed.

Lemma decode_utf8_app l rest : valid_text l ->
  decode_len (utf8 l ++ rest) =
  match decode_len rest with Some k => Some (length l + k) | None => None end.
Proof.
  intros Hl. induction Hl as [|c l Hc Hl IH].
  - cbn [utf8 flat_map app length]. destruct (decode_len rest); reflexivity.
  - rewrite utf8_cons, <- app_assoc, (decode_len_step c _ Hc), IH.
    destruct (decode_len rest); reflexivity.
Qed.

Lemma decode_utf8 l : valid_text l -> decode_len (utf8 l) = Some (length l).
Proof.
  intros Hl. rewrite <- (app_nil_r (utf8 l)), (decode_utf8_app l [] Hl), decode_len_nil.
  f_equal. lia.
Qed.

Lemma decode_trunc c d : valid_cp c -> 0 < d < length (enc c) ->
  decode_len (firstn d (enc c)) = None.
Proof.
  intros Hc Hd. destruct (enc_shape c Hc) as (b & rs & E & Hs & Hf). rewrite E in *.
  destruct d as [|d]; [lia|]. cbn [firstn]. unfold decode_len. cbn [length dec_len].
  rewrite Hs.
  assert (S (length rs) <=? S (length (firstn d rs)) = false) as ->
    by (apply Nat.leb_gt; rewrite firstn_length; cbn [length] in Hd; lia).
  reflexivity.
Qed.

Lemma Forall_firstn {A} (P : A -> Prop) n l : Forall P l -> Forall P (firstn n l).
Proof.
  intros H. rewrite <- (firstn_skipn n l) in H. apply Forall_app in H. tauto.
Qed.

Lemma Forall_skipn {A} (P : A -> Prop) n l : Forall P l -> Forall P (skipn n l).
Proof.
  intros H. rewrite <- (firstn_skipn n l) in H. apply Forall_app in H. tauto.
Qed.

Lemma valid_slice text a b : valid_text text -> valid_text (slice text a b).
Proof. intros H. unfold slice. apply Forall_firstn, Forall_skipn, H. Qed.

(* a slice between two boundaries decodes to the characters between them ... *)
Theorem decode_boundary : forall text i j, valid_text text -> (i <= j <= length text)%nat ->
  decode_len (slice (utf8 text) (bpos text i) (bpos text j)) = Some (j - i)%nat.
Proof.
  intros text i j Hv Hij.
  rewrite slice_utf8 by exact Hij.
  rewrite decode_utf8 by (apply valid_slice; exact Hv).
  rewrite slice_length by lia. reflexivity.
Qed.

(* locating a byte offset: it is a boundary or lies strictly inside a character *)
Lemma locate : forall text b, b <= length (utf8 text) ->
  exists l1 l2, text = l1 ++ l2 /\
    (length (utf8 l1) = b \/
     exists c l3, l2 = c :: l3 /\
                  length (utf8 l1) < b < length (utf8 l1) + length (enc c)).
Proof.
  induction text as [|c t IH]; intros b Hb.
  - exists [], []. split; [reflexivity|]. left. cbn in *. lia.
  - rewrite utf8_cons, app_length in Hb.
    destruct (Nat.eq_dec b 0) as [->|Hb0].
    { exists [], (c :: t). split; [reflexivity|]. left. reflexivity. }
    destruct (lt_dec b (length (enc c))) as [Hlt|Hge].
    { exists [], (c :: t). split; [reflexivity|]. right. exists c, t.
      split; [reflexivity|]. cbn [utf8 flat_map length]. lia. }
    destruct (IH (b - length (enc c))) as (l1 & l2 & E & H); [lia|].
    exists (c :: l1), l2. split; [rewrite E; reflexivity|].
    rewrite utf8_cons, app_length.
    destruct H as [H|(c' & l3 & E2 & H)].
    + left. lia.
    + right. exists c', l3. split; [exact E2|]. lia.
Qed.

Lemma locate2 text b : b <= length (utf8 text) ->
  (exists j, j <= length text /\ bpos text j = b) \/
  (exists l1 c l3, text = l1 ++ c :: l3 /\
     bpos text (length l1) = length (utf8 l1) /\
     bpos text (S (length l1)) = length (utf8 l1) + length (enc c) /\
     length (utf8 l1) < b < length (utf8 l1) + length (enc c)).
Proof.
  intros Hb. destruct (locate text b Hb) as (l1 & l2 & E & [H|(c & l3 & E2 & H)]).
  - left. exists (length l1). subst text. rewrite app_length, bpos_at. split; [lia|exact H].
  - right. exists l1, c, l3. subst l2. split; [exact E|]. subst text.
    split; [apply bpos_at|]. split; [|exact H].
    replace (l1 ++ c :: l3) with ((l1 ++ [c]) ++ l3) by (rewrite <- app_assoc; reflexivity).
    replace (S (length l1)) with (length (l1 ++ [c])) by (rewrite app_length; cbn; lia).
    rewrite bpos_at, utf8_app, app_length. cbn [utf8 flat_map]. rewrite app_nil_r. reflexivity.
Qed.

Lemma boundary_dec text b : b <= length (utf8 text) ->
  (exists j, j <= length text /\ bpos text j = b) \/
  (forall j, j <= length text -> bpos text j <> b).
Proof.
  intros Hb. destruct (locate2 text b Hb) as [H|(l1 & c & l3 & E & B1 & B2 & H)].
  - left; exact H.
  - right. intros j Hj Hjb.
    destruct (Nat.le_gt_cases j (length l1)) as [L|L].
    + pose proof (bpos_mono text j (length l1) L). lia.
    + pose proof (bpos_mono text (S (length l1)) j L). lia.
Qed.

Lemma slice_into l1 c l3 b :
  length (utf8 l1) <= b <= length (utf8 l1) + length (enc c) ->
  slice (utf8 (l1 ++ c :: l3)) (length (utf8 l1)) b = firstn (b - length (utf8 l1)) (enc c).
Proof.
  intros Hb. unfold slice.
  rewrite utf8_app, skipn_app, skipn_all, Nat.sub_diag. cbn [skipn app].
  rewrite utf8_cons, firstn_app.
  replace (b - length (utf8 l1) - length (enc c)) with 0 by lia.
  rewrite firstn_O. apply app_nil_r.
Qed.

(* ... and a slice from a boundary to a byte offset inside a character does not decode *)
Theorem decode_inside : forall text i b, valid_text text -> (i <= length text)%nat ->
  (bpos text i <= b <= length (utf8 text))%nat -> (forall j, (j <= length text)%nat -> bpos text j <> b) ->
  decode_len (slice (utf8 text) (bpos text i) b) = None.
Proof.
  intros text i b Hv Hi Hb Hnb.
  destruct (locate2 text b) as [(j & Hj & E)|(l1 & c & l3 & E & B1 & B2 & H)]; [lia| |].
  - exfalso. exact (Hnb j Hj E).
  - assert (Hlen : S (length l1) <= length text)
      by (rewrite E, app_length; cbn [length]; lia).
    assert (Hij : i <= length l1).
    { destruct (Nat.le_gt_cases i (length l1)) as [L|L]; [exact L|].
      pose proof (bpos_mono text (S (length l1)) i L). lia. }
    assert (Hc : valid_cp c).
    { unfold valid_text in Hv. rewrite E in Hv. apply Forall_app in Hv.
      destruct Hv as [_ Hv]. inversion Hv; assumption. }
    rewrite <- (slice_app (utf8 text) (bpos text i) (bpos text (length l1)) b)
      by (try apply bpos_mono; lia).
    rewrite slice_utf8 by lia.
    rewrite B1. rewrite E at 2. rewrite slice_into by lia.
    rewrite decode_utf8_app by (apply valid_slice; exact Hv).
    rewrite decode_trunc; [reflexivity|exact Hc|lia].
Qed.

(* ================================================================== *)
(* 4. sorted(set(offsets))                                             *)
(* ================================================================== *)

Lemma insert_uniq_In x l y : In y (insert_uniq x l) <-> y = x \/ In y l.
Proof.
  induction l as [|z l IH]; cbn [insert_uniq].
  - cbn. intuition.
  - destruct (Nat.ltb_spec x z) as [H|H].
    + cbn [In]. intuition.
    + destruct (Nat.eqb_spec x z) as [->|Hne].
      * cbn [In]. intuition.
      * cbn [In]. rewrite IH. intuition.
Qed.

Lemma insert_uniq_sorted x l : StronglySorted lt l -> StronglySorted lt (insert_uniq x l).
Proof.
  intros Hs. induction Hs as [|z l Hs IH Hz]; cbn [insert_uniq].
  - constructor; constructor.
  - destruct (Nat.ltb_spec x z) as [H|H].
    + constructor; [constructor; assumption|].
      constructor; [exact H|]. rewrite Forall_forall in *. intros y Hy. specialize (Hz y Hy). lia.
    + destruct (Nat.eqb_spec x z) as [->|Hne].
      * constructor; assumption.
      * constructor; [exact IH|]. rewrite Forall_forall in *. intros y Hy.
        apply insert_uniq_In in Hy. destruct Hy as [->|Hy]; [lia|exact (Hz y Hy)].
Qed.

Lemma sort_uniq_In l y : In y (sort_uniq l) <-> In y l.
Proof.
  induction l as [|x l IH]; cbn [sort_uniq fold_right]; [reflexivity|].
  fold (sort_uniq l). rewrite insert_uniq_In, IH. cbn [In]. intuition.
Qed.

Lemma sort_uniq_sorted l : StronglySorted lt (sort_uniq l).
Proof.
  induction l as [|x l IH]; cbn [sort_uniq fold_right]; [constructor|].
  apply insert_uniq_sorted, IH.
Qed.

(* ================================================================== *)
(* 5. the offset table                                                 *)
(* ================================================================== *)

Lemma table_go_spec text : valid_text text ->
  forall offs k, k <= length text -> StronglySorted lt offs ->
  Forall (fun o => bpos text k <= o <= length (utf8 text)) offs ->
  forall b i, tlookup b (table_go (utf8 text) offs (bpos text k) k) = Some i <->
              In b offs /\ i <= length text /\ bpos text i = b.
Proof.
  intros Hv. induction offs as [|o r IH]; intros k Hk Hs Hf b i.
  - cbn. split; [discriminate|intros [[] _]].
  - inversion Hs as [|? ? Hs' Hlt]; subst.
    inversion Hf as [|? ? Ho Hf']; subst.
    cbn [table_go].
    destruct (boundary_dec text o) as [(j & Hj & E)|Hnb]; [lia| |].
    + assert (Hkj : k <= j) by (apply (bpos_le_inv text); lia).
      rewrite <- E. rewrite decode_boundary by (try exact Hv; lia).
      replace (k + (j - k)) with j by lia. rewrite E.
      cbn [tlookup]. destruct (Nat.eqb_spec b o) as [->|Hne].
      * split.
        -- intros [= <-]. split; [left; reflexivity|]. split; [exact Hj|exact E].
        -- intros (_ & Hi & Hb). f_equal. apply (bpos_inj text); lia.
      * assert (Hf'' : Forall (fun x => bpos text j <= x <= length (utf8 text)) r).
        { rewrite Forall_forall in *. intros x Hx. specialize (Hlt x Hx). specialize (Hf' x Hx). lia. }
        pose proof (IH j Hj Hs' Hf'' b i) as IHj. rewrite E in IHj. rewrite IHj.
        cbn [In]. split; [intuition|]. intros ([Hin|Hin] & Hi & Hb); [congruence|]. auto.
    + rewrite decode_inside; [|exact Hv|exact Hk|lia|exact Hnb].
      rewrite IH; [|exact Hk|exact Hs'|exact Hf'].
      cbn [In]. split; [intuition|]. intros ([->|Hin] & Hi & Hb); [|auto].
      exfalso. exact (Hnb i Hi Hb).
Qed.

(* the offset table maps b to i exactly when b is a requested offset and the byte position of boundary i *)
Definition hit_offsets (hits : list hit) : list nat := flat_map (fun h => [fst (snd h); snd (snd h)]) hits.

Theorem offset_table_spec : forall text hits b i, valid_text text ->
  Forall (fun o => (o <= length (utf8 text))%nat) (hit_offsets hits) ->
  (tlookup b (offset_table text hits) = Some i <->
   In b (hit_offsets hits) /\ (i <= length text)%nat /\ bpos text i = b).
Proof.
  intros text hits b i Hv Hf. unfold offset_table. fold (hit_offsets hits).
  change (table_go (utf8 text) (sort_uniq (hit_offsets hits)) 0 0)
    with (table_go (utf8 text) (sort_uniq (hit_offsets hits)) (bpos text 0) 0).
  rewrite (table_go_spec text Hv); [|lia|apply sort_uniq_sorted|].
  - rewrite sort_uniq_In. reflexivity.
  - rewrite Forall_forall in *. intros x Hx. rewrite sort_uniq_In in Hx.
    specialize (Hf x Hx). rewrite bpos_0. lia.
Qed.

(* a hit is kept iff both its ends are character boundaries; the str offsets are those boundaries *)
Theorem translate_spec : forall text hits idx s e, valid_text text ->
  Forall (fun o => (o <= length (utf8 text))%nat) (hit_offsets hits) ->
  (In (idx, (s, e)) (translate text hits) <->
   (s <= length text)%nat /\ (e <= length text)%nat /\ In (idx, (bpos text s, bpos text e)) hits).
Proof.
  intros text hits idx s e Hv Hf. unfold translate. rewrite in_flat_map. split.
  - intros ([i [bs be]] & Hin & H). cbn [fst snd] in H.
    destruct (tlookup bs (offset_table text hits)) as [s'|] eqn:Es; [|destruct H].
    destruct (tlookup be (offset_table text hits)) as [e'|] eqn:Ee; [|destruct H].
    destruct H as [H|[]]. injection H as -> -> ->.
    apply (offset_table_spec text hits _ _ Hv Hf) in Es.
    apply (offset_table_spec text hits _ _ Hv Hf) in Ee.
    destruct Es as (_ & Hs & <-). destruct Ee as (_ & He & <-). auto.
  - intros (Hs & He & Hin). exists (idx, (bpos text s, bpos text e)). split; [exact Hin|].
    cbn [fst snd].
    assert (Is : In (bpos text s) (hit_offsets hits)).
    { unfold hit_offsets. apply in_flat_map. eexists; split; [exact Hin|]. cbn; auto. }
    assert (Ie : In (bpos text e) (hit_offsets hits)).
    { unfold hit_offsets. apply in_flat_map. eexists; split; [exact Hin|]. cbn; auto. }
    assert (Es : tlookup (bpos text s) (offset_table text hits) = Some s)
      by (apply (offset_table_spec text hits _ _ Hv Hf); auto).
    assert (Ee : tlookup (bpos text e) (offset_table text hits) = Some e)
      by (apply (offset_table_spec text hits _ _ Hv Hf); auto).
    rewrite Es, Ee. left; reflexivity.
Qed.

(* ================================================================== *)
(* 6. re-match                                                         *)
(* ================================================================== *)

Lemma slice_slice {A} (l : list A) s e a b : b <= length (slice l s e) ->
  slice (slice l s e) a b = slice l (s + a) (s + b).
Proof.
  unfold slice. intros Hb. rewrite firstn_length in Hb.
  rewrite skipn_firstn_comm, firstn_firstn, <- skipn_plus.
  f_equal. lia.
Qed.

Lemma extract_In rematch text hits t :
  In t (extract rematch text hits) <->
  exists s e a b, In (h_idx t, (s, e)) (translate text hits) /\
    rematch (h_idx t) text s = Some (a, b) /\
    h_start t = a /\ h_end t = b /\ h_data t = slice text a b.
Proof.
  unfold extract. rewrite in_flat_map. split.
  - intros ([idx [s e]] & Hin & H).
    destruct (rematch idx text s) as [[a b]|] eqn:E; [|destruct H].
    destruct H as [<-|[]]. cbn. exists s, e, a, b. auto.
  - intros (s & e & a & b & Hin & E & H1 & H2 & H3).
    exists (h_idx t, (s, e)). split; [exact Hin|]. rewrite E. left.
    destruct t; cbn in *; subst; reflexivity.
Qed.

(* every reported token indexes its own text, whatever Hyperscan reported *)
Theorem extract_wf : forall rematch text hits t, valid_text text ->
  Forall (fun o => (o <= length (utf8 text))%nat) (hit_offsets hits) ->
  (forall idx s a b, rematch idx text s = Some (a, b) -> (a <= b <= length text)%nat) ->
  In t (extract rematch text hits) ->
  (h_start t <= h_end t <= length text)%nat /\ h_data t = slice text (h_start t) (h_end t).
Proof.
  intros rematch text hits t Hv Hf Hr Hin.
  apply extract_In in Hin. destruct Hin as (s & e & a & b & Hin & E & H1 & H2 & H3).
  apply (translate_spec text hits _ _ _ Hv Hf) in Hin. destruct Hin as (Hs & He & _).
  pose proof (Hr _ _ _ _ E) as Hab.
  rewrite H1, H2, H3. split; [lia|reflexivity].
Qed.

(* every reported token comes from a hit and from a successful in-place re-match of that extractor's
   pattern at the hit's start character offset *)
Theorem extract_genuine : forall rematch text hits t, valid_text text ->
  Forall (fun o => (o <= length (utf8 text))%nat) (hit_offsets hits) ->
  In t (extract rematch text hits) ->
  exists s e, In (h_idx t, (bpos text s, bpos text e)) hits /\ (s <= length text)%nat /\ (e <= length text)%nat /\
    rematch (h_idx t) text s = Some (h_start t, h_end t).
Proof.
  intros rematch text hits t Hv Hf Hin.
  apply extract_In in Hin. destruct Hin as (s & e & a & b & Hin & E & H1 & H2 & H3).
  apply (translate_spec text hits _ _ _ Hv Hf) in Hin. destruct Hin as (Hs & He & Hin).
  exists s, e. rewrite H1, H2. auto 10.
Qed.

(* ================================================================== *)
(* 7. the cache                                                        *)
(* ================================================================== *)

(* the cache: whatever the cache file contains, a database is returned, and it is either the one
   compiled from the current expressions or one the loader accepted *)
Theorem get_db_spec : forall DB (loadb : list N -> load_result DB) compiled dumpb c,
  fst (get_db DB loadb compiled dumpb c) = compiled \/
  exists bs, c = CacheFile bs /\ loadb bs = LoadOk (fst (get_db DB loadb compiled dumpb c)).
Proof.
  intros DB loadb compiled dumpb [| |bs]; cbn [get_db]; [left; reflexivity|left; reflexivity|].
  destruct (loadb bs) as [db|] eqn:E; [|left; reflexivity].
  right. exists bs. split; [reflexivity|]. exact E.
Qed.

(* after one construction the cache never makes a later construction fall back silently to a
   different file: the state is a fixed point unless the loader rejects what was just written *)
Theorem get_db_no_cache : forall DB (loadb : list N -> load_result DB) compiled dumpb,
  get_db DB loadb compiled dumpb NoCacheDir = (compiled, NoCacheDir).
Proof. reflexivity. Qed.
