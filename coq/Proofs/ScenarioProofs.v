(* Proofs/ScenarioProofs.v -- C05: in a scenario document (Proofs/ScenarioSpec.v) every
   unambiguous reference is grouped with the case it was written for, the others are left
   out, and there is exactly one resource per case cited in full.

   The statement needs one hypothesis that ScenarioSpec.scenario_ok does not contain:
   `pins_small` -- every "Id. at PIN" pin is below 10^40, the range on which
   ScenarioSpec.digits (fuel 40) is the decimal rendering.  Without it the statement is
   false: see `scenario_resolution_needs_small_pins` at the end of the file. *)
From EV Require Import Base.Str Base.PyVal Model.Tokenize Model.Resolve Proofs.ResolveSpec Proofs.ResolveProofs Proofs.ResolveTotal Proofs.ScenarioSpec.
From Coq Require Import ZifyN ZifyBool Lia.
Open Scope nat_scope.   (* ScenarioSpec leaves N_scope open *)

(* ================================================================== *)
(* decimal digits                                                      *)
(* ================================================================== *)

Fixpoint pow10 (k : nat) : N := match k with O => 1%N | S k' => (10 * pow10 k')%N end.

Lemma pow10_40 : pow10 40 = (10 ^ 40)%N.
Proof. vm_compute. reflexivity. Qed.

Definition isdig (c : N) : bool := in_ranges [(48, 57)%N] c.

Lemma isdig_digit n : isdig (48 + n mod 10) = true.
Proof.
  unfold isdig, in_ranges. cbn [existsb fst snd].
  pose proof (N.mod_upper_bound n 10 ltac:(discriminate)) as H. set (m := (n mod 10)%N) in *.
  rewrite orb_false_r. apply andb_true_iff. split; apply N.leb_le; lia.
Qed.

Lemma digit_val_digit n : digit_val DASCII (48 + n mod 10) = Some (n mod 10)%N.
Proof.
  unfold digit_val. cbn [d_nd DASCII range_of].
  pose proof (N.mod_upper_bound n 10 ltac:(discriminate)) as H. set (m := (n mod 10)%N) in *.
  assert (E : ((48 <=? 48 + m) && (48 + m <=? 57))%N = true).
  { apply andb_true_iff; split; apply N.leb_le; lia. }
  rewrite E. f_equal. replace (48 + m - 48)%N with m by lia. apply N.mod_small; exact H.
Qed.

Lemma int_acc_app D s1 : forall a s2,
  int_acc D a (s1 ++ s2) = match int_acc D a s1 with Some a' => int_acc D a' s2 | None => None end.
Proof.
  induction s1 as [|c s1 IH]; intros a s2; cbn [app int_acc]; [reflexivity|].
  destruct (digit_val D c); [apply IH|reflexivity].
Qed.

Lemma digits_fuel_shape f : forall n acc,
  exists s, digits_fuel f n acc = s ++ acc /\ forallb isdig s = true /\ (f <> 0%nat -> s <> []).
Proof.
  induction f as [|f IH]; intros n acc.
  - exists []. cbn. repeat split. congruence.
  - cbn [digits_fuel]. cbv zeta. destruct (n <? 10)%N.
    + exists [(48 + n mod 10)%N]. cbn [app forallb]. rewrite isdig_digit. repeat split. discriminate.
    + destruct (IH (n / 10)%N ((48 + n mod 10)%N :: acc)) as [s [E [Hd _]]].
      exists (s ++ [(48 + n mod 10)%N]). rewrite E, <- app_assoc. cbn [app]. split; [reflexivity|].
      split.
      * rewrite forallb_app, Hd. cbn [forallb]. rewrite isdig_digit. reflexivity.
      * intros _. destruct s; discriminate.
Qed.

Lemma digits_fuel_val f : forall n acc, (n < pow10 f)%N ->
  exists s, digits_fuel f n acc = s ++ acc /\ int_acc DASCII 0 s = Some n.
Proof.
  induction f as [|f IH]; intros n acc Hlt.
  - exists []. cbn [pow10] in Hlt. cbn. split; [reflexivity|]. f_equal. lia.
  - cbn [digits_fuel]. cbv zeta. destruct (N.ltb_spec n 10) as [Hs|Hb].
    + exists [(48 + n mod 10)%N]. cbn [app int_acc]. rewrite digit_val_digit.
      split; [reflexivity|]. f_equal. rewrite N.mod_small by exact Hs. lia.
    + assert (Hq : (n / 10 < pow10 f)%N).
      { apply N.div_lt_upper_bound; [discriminate|]. exact Hlt. }
      destruct (IH (n / 10)%N ((48 + n mod 10)%N :: acc) Hq) as [s [E Hv]].
      exists (s ++ [(48 + n mod 10)%N]). rewrite E, <- app_assoc. cbn [app]. split; [reflexivity|].
      rewrite int_acc_app, Hv. cbn [int_acc]. rewrite digit_val_digit. f_equal.
      pose proof (N.div_mod' n 10) as Hdm. lia.
Qed.

Lemma digits_isdig n : forallb isdig (digits n) = true.
Proof.
  unfold digits. destruct (digits_fuel_shape 40 n []) as [s [E [H _]]].
  rewrite E, app_nil_r. exact H.
Qed.

Lemma digits_nonempty n : digits n <> [].
Proof.
  unfold digits. destruct (digits_fuel_shape 40 n []) as [s [E [_ H]]].
  rewrite E, app_nil_r. apply H. discriminate.
Qed.

Lemma digits_int n : (n < 10 ^ 40)%N -> int_of DASCII (digits n) = Some n.
Proof.
  intros Hlt. rewrite <- pow10_40 in Hlt. pose proof (digits_nonempty n) as Hne. unfold digits in *.
  destruct (digits_fuel_val 40 n [] Hlt) as [s [E Hv]]. rewrite E, app_nil_r in *.
  destruct s as [|c s]; [congruence|]. exact Hv.
Qed.

Lemma digits_isdigit n : str_isdigit DASCII (digits n) = true.
Proof.
  pose proof (digits_nonempty n) as Hne. pose proof (digits_isdig n) as Hd.
  unfold str_isdigit. destruct (digits n) as [|c s]; [congruence|]. exact Hd.
Qed.

Lemma take_while_all (P : N -> bool) s : forallb P s = true -> take_while P s = s.
Proof.
  induction s as [|c s IH]; cbn [forallb take_while]; [reflexivity|].
  intros H. apply andb_true_iff in H. destruct H as [H1 H2]. rewrite H1, IH by exact H2. reflexivity.
Qed.

Lemma pin_number_at p : pin_number DASCII (AT ++ digits p) = Some (digits p).
Proof.
  unfold pin_number.
  assert (Hp : prefixb at_sp (AT ++ digits p) = true) by (apply prefixb_spec; exists (digits p); reflexivity).
  rewrite Hp. change (skipn 3 (AT ++ digits p)) with (digits p).
  change (in_ranges (d_nd DASCII)) with isdig. rewrite take_while_all by apply digits_isdig.
  pose proof (digits_nonempty p) as Hne. destruct (digits p); [congruence|reflexivity].
Qed.

Lemma str_isdigit_int p : str_isdigit DASCII p = true -> int_of DASCII p <> None.
Proof.
  intros H. destruct p as [|c s]; [discriminate|].
  destruct (int_of_some DASCII (c :: s)) as [n En]; [discriminate|exact H|]. congruence.
Qed.

(* ================================================================== *)
(* small list facts                                                    *)
(* ================================================================== *)

Lemma firstn_length_app {A} (l1 l2 : list A) : firstn (length l1) (l1 ++ l2) = l1.
Proof. induction l1 as [|x l1 IH]; cbn; [reflexivity|]. f_equal. exact IH. Qed.

Lemma forallb_false_ex {A} (f : A -> bool) l :
  forallb f l = false -> exists x, In x l /\ f x = false.
Proof.
  induction l as [|x l IH]; cbn [forallb]; [discriminate|].
  destruct (f x) eqn:E; cbn [andb].
  - intros H. destruct (IH H) as [y [Hy Hf]]. exists y. split; [right; exact Hy|exact Hf].
  - intros _. exists x. split; [left; reflexivity|exact E].
Qed.

Lemma infixb_refl x : infixb x x = true.
Proof. apply infixb_spec. exists [], []. rewrite app_nil_r. reflexivity. Qed.

(* ================================================================== *)
(* the rendered citation list                                          *)
(* ================================================================== *)

Lemma oid_render cases o e : oid (render_event cases o e) = o.
Proof. destruct e; reflexivity. Qed.

Lemma render_from_app cases l1 : forall o l2,
  render_from cases o (l1 ++ l2) = render_from cases o l1 ++ render_from cases (o + length l1) l2.
Proof.
  induction l1 as [|e l1 IH]; intros o l2; cbn [app render_from length].
  - rewrite Nat.add_0_r. reflexivity.
  - rewrite IH. replace (S o + length l1) with (o + S (length l1)) by lia. reflexivity.
Qed.

Lemma render_split cases l1 e l2 :
  render cases (l1 ++ e :: l2) =
  render cases l1 ++ render_event cases (length l1) e :: render_from cases (S (length l1)) l2.
Proof. unfold render. rewrite render_from_app. reflexivity. Qed.

Lemma render_snoc cases l1 e :
  render cases (l1 ++ [e]) = render cases l1 ++ [render_event cases (length l1) e].
Proof. rewrite render_split. reflexivity. Qed.

Lemma render_from_length cases l : forall o, length (render_from cases o l) = length l.
Proof. induction l as [|e l IH]; intros o; cbn; [reflexivity|]. rewrite IH. reflexivity. Qed.

Lemma nth_error_render_from cases l : forall o i,
  nth_error (render_from cases o l) i = option_map (render_event cases (o + i)) (nth_error l i).
Proof.
  induction l as [|e l IH]; intros o i; cbn [render_from].
  - destruct i; reflexivity.
  - destruct i as [|i]; cbn [nth_error option_map].
    + rewrite Nat.add_0_r. reflexivity.
    + rewrite IH. replace (S o + i) with (o + S i) by lia. reflexivity.
Qed.

Lemma render_oids_ok cases evs : oids_ok (render cases evs).
Proof.
  intros i c H. unfold render in H. rewrite nth_error_render_from in H.
  destruct (nth_error evs i); [|discriminate]. cbn in H. injection H as <-. apply oid_render.
Qed.

Lemma in_render_inv cases l : forall o c,
  In c (render_from cases o l) -> exists o' e, In e l /\ c = render_event cases o' e.
Proof.
  induction l as [|e l IH]; intros o c; cbn [render_from]; [intros []|].
  intros [<-|H].
  - exists o, e. split; [left; reflexivity|reflexivity].
  - destruct (IH _ _ H) as [o' [e' [Hin E]]]. exists o', e'. split; [right; exact Hin|exact E].
Qed.

Lemma in_render_intro cases l : forall o e,
  In e l -> exists o', In (render_event cases o' e) (render_from cases o l).
Proof.
  induction l as [|a l IH]; intros o e; [intros []|]. cbn [render_from].
  intros [->|H].
  - exists o. left; reflexivity.
  - destruct (IH (S o) e H) as [o' Ho]. exists o'. right; exact Ho.
Qed.

Lemma render_event_wf cases o e : cit_wf DASCII (render_event cases o e).
Proof.
  split.
  - destruct e; cbn [render_event c_cls base_cit];
      intros [H|H]; try discriminate H; (split; [eexists; reflexivity|right; eexists; reflexivity]).
  - intros p _. apply str_isdigit_int.
Qed.

Lemma render_wf cases evs : Forall (cit_wf DASCII) (render cases evs).
Proof.
  apply Forall_forall. intros c H. destruct (in_render_inv _ _ _ _ H) as [o' [e [_ ->]]].
  apply render_event_wf.
Qed.

Lemma key_of_full cases o i :
  key_of (render_event cases o (EFull i)) = Ok (case_key (the_case cases i)).
Proof. reflexivity. Qed.

Lemma fulls_of_render_cons cases o e p :
  fulls_of (render_event cases o e :: p) =
  match e with
  | EFull j => (render_event cases o e, case_key (the_case cases j)) :: fulls_of p
  | _ => fulls_of p
  end.
Proof. destruct e; reflexivity. Qed.

Lemma fulls_in_inv cases l : forall o f k,
  In (f, k) (fulls_of (render_from cases o l)) ->
  exists o' j, In (EFull j) l /\ f = render_event cases o' (EFull j) /\ k = case_key (the_case cases j).
Proof.
  induction l as [|e l IH]; intros o f k; cbn [render_from]; [intros []|].
  rewrite fulls_of_render_cons. intros H.
  assert (Hrec : In (f, k) (fulls_of (render_from cases (S o) l)) ->
                 exists o' j, In (EFull j) (e :: l) /\ f = render_event cases o' (EFull j) /\
                              k = case_key (the_case cases j)).
  { intros H'. destruct (IH _ _ _ H') as [o' [j [Hin HE]]]. exists o', j. split; [right; exact Hin|exact HE]. }
  destruct e; try (apply Hrec; exact H).
  destruct H as [E|H]; [|apply Hrec; exact H].
  injection E as <- <-. exists o, i. split; [left; reflexivity|split; reflexivity].
Qed.

Lemma fulls_in_intro cases l : forall o j,
  In (EFull j) l ->
  exists o', In (render_event cases o' (EFull j), case_key (the_case cases j)) (fulls_of (render_from cases o l)).
Proof.
  induction l as [|e l IH]; intros o j; [intros []|]. cbn [render_from]. rewrite fulls_of_render_cons.
  intros [->|H].
  - exists o. left; reflexivity.
  - destruct (IH (S o) j H) as [o' Ho]. exists o'. destruct e; try exact Ho. right; exact Ho.
Qed.

Lemma cited_in l j :
  existsb (fun e => match e with EFull j' => Nat.eqb j j' | _ => false end) l = true <-> In (EFull j) l.
Proof.
  rewrite existsb_exists. split.
  - intros [e [Hin He]]. destruct e; try discriminate He. apply Nat.eqb_eq in He. subst. exact Hin.
  - intros H. exists (EFull j). split; [exact H|apply Nat.eqb_refl].
Qed.

Lemma cited_before_split l1 l2 j :
  cited_before (l1 ++ l2) (length l1) j = true <-> In (EFull j) l1.
Proof. unfold cited_before. rewrite firstn_length_app. apply cited_in. Qed.

Lemma cited_before_all evs j :
  cited_before evs (length evs) j = true <-> In (EFull j) evs.
Proof. unfold cited_before. rewrite firstn_all. apply cited_in. Qed.
