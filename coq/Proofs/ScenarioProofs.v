(* Proofs/ScenarioProofs.v -- C05: in a scenario document (Proofs/ScenarioSpec.v) every
   unambiguous reference is grouped with the case it was written for, the others are left
   out, and there is exactly one resource per case cited in full.

   The statement needs one hypothesis that ScenarioSpec.scenario_ok does not contain:
   `pins_small` -- every "Id. at PIN" pin is below 10^40, the range on which
   ScenarioSpec.digits (fuel 40) is the decimal rendering.  Without it the statement is
   false: see `scenario_resolution_needs_small_pins` at the end of the file. *)
From EV Require Import Base.Str Base.PyVal Model.Tokenize Model.Resolve Proofs.ResolveSpec Proofs.ResolveProofs Proofs.ResolveTotal Proofs.ScenarioSpec.
From Coq Require Import ZifyN ZifyBool Lia.
Open Scope nat_scope.   (* ScenarioSpec leaves N_scope open *)

(* ================================================================== *)
(* decimal digits                                                      *)
(* ================================================================== *)

Fixpoint pow10 (k : nat) : N := match k with O => 1%N | S k' => (10 * pow10 k')%N end.

Lemma pow10_40 : pow10 40 = (10 ^ 40)%N.
Proof. vm_compute. reflexivity. Qed.

Definition isdig (c : N) : bool := in_ranges [(48, 57)%N] c.

Lemma isdig_digit n : isdig (48 + n mod 10) = true.
Proof.
  unfold isdig, in_ranges. cbn [existsb fst snd].
  pose proof (N.mod_upper_bound n 10 ltac:(discriminate)) as H. set (m := (n mod 10)%N) in *.
  rewrite orb_false_r. apply andb_true_iff. split; apply N.leb_le; lia.
Qed.

Lemma digit_val_digit n : digit_val DASCII (48 + n mod 10) = Some (n mod 10)%N.
Proof.
  unfold digit_val. cbn [d_nd DASCII range_of].
  pose proof (N.mod_upper_bound n 10 ltac:(discriminate)) as H. set (m := (n mod 10)%N) in *.
  assert (E : ((48 <=? 48 + m) && (48 + m <=? 57))%N = true).
  { apply andb_true_iff; split; apply N.leb_le; lia. }
  rewrite E. f_equal. replace (48 + m - 48)%N with m by lia. apply N.mod_small; exact H.
Qed.

Lemma int_acc_app D s1 : forall a s2,
  int_acc D a (s1 ++ s2) = match int_acc D a s1 with Some a' => int_acc D a' s2 | None => None end.
Proof.
  induction s1 as [|c s1 IH]; intros a s2; cbn [app int_acc]; [reflexivity|].
  destruct (digit_val D c); [apply IH|reflexivity].
Qed.

Lemma digits_fuel_shape f : forall n acc,
  exists s, digits_fuel f n acc = s ++ acc /\ forallb isdig s = true /\ (f <> 0%nat -> s <> []).
Proof.
  induction f as [|f IH]; intros n acc.
  - exists []. cbn. repeat split. congruence.
  - cbn [digits_fuel]. cbv zeta. destruct (n <? 10)%N.
    + exists [(48 + n mod 10)%N]. cbn [app forallb]. rewrite isdig_digit. repeat split. discriminate.
    + destruct (IH (n / 10)%N ((48 + n mod 10)%N :: acc)) as [s [E [Hd _]]].
      exists (s ++ [(48 + n mod 10)%N]). rewrite E, <- app_assoc. cbn [app]. split; [reflexivity|].
      split.
      * rewrite forallb_app, Hd. cbn [forallb]. rewrite isdig_digit. reflexivity.
      * intros _. destruct s; discriminate.
Qed.

Lemma digits_fuel_val f : forall n acc, (n < pow10 f)%N ->
  exists s, digits_fuel f n acc = s ++ acc /\ int_acc DASCII 0 s = Some n.
Proof.
  induction f as [|f IH]; intros n acc Hlt.
  - exists []. cbn [pow10] in Hlt. cbn. split; [reflexivity|]. f_equal. lia.
  - cbn [digits_fuel]. cbv zeta. destruct (N.ltb_spec n 10) as [Hs|Hb].
    + exists [(48 + n mod 10)%N]. cbn [app int_acc]. rewrite digit_val_digit.
      split; [reflexivity|]. f_equal. rewrite N.mod_small by exact Hs. lia.
    + assert (Hq : (n / 10 < pow10 f)%N).
      { apply N.div_lt_upper_bound; [discriminate|]. exact Hlt. }
      destruct (IH (n / 10)%N ((48 + n mod 10)%N :: acc) Hq) as [s [E Hv]].
      exists (s ++ [(48 + n mod 10)%N]). rewrite E, <- app_assoc. cbn [app]. split; [reflexivity|].
      rewrite int_acc_app, Hv. cbn [int_acc]. rewrite digit_val_digit. f_equal.
      pose proof (N.div_mod' n 10) as Hdm. lia.
Qed.

Lemma digits_isdig n : forallb isdig (digits n) = true.
Proof.
  unfold digits. destruct (digits_fuel_shape 40 n []) as [s [E [H _]]].
  rewrite E, app_nil_r. exact H.
Qed.

Lemma digits_nonempty n : digits n <> [].
Proof.
  unfold digits. destruct (digits_fuel_shape 40 n []) as [s [E [_ H]]].
  rewrite E, app_nil_r. apply H. discriminate.
Qed.

Lemma digits_int n : (n < 10 ^ 40)%N -> int_of DASCII (digits n) = Some n.
Proof.
  intros Hlt. rewrite <- pow10_40 in Hlt. pose proof (digits_nonempty n) as Hne. unfold digits in *.
  destruct (digits_fuel_val 40 n [] Hlt) as [s [E Hv]]. rewrite E, app_nil_r in *.
  destruct s as [|c s]; [congruence|]. exact Hv.
Qed.

(* the fuel bounds the length, so the interpreter's digit limit (4300) is never reached *)
Lemma digits_fuel_length f : forall n acc, length (digits_fuel f n acc) <= f + length acc.
Proof.
  induction f as [|f IH]; intros n acc; cbn [digits_fuel]; [cbn; lia|]. cbv zeta.
  destruct (n <? 10)%N.
  - cbn [length]. lia.
  - pose proof (IH (n / 10)%N ((48 + n mod 10)%N :: acc)) as H. cbn [length] in H. lia.
Qed.

Lemma digits_length n : length (digits n) <= 40.
Proof. unfold digits. pose proof (digits_fuel_length 40 n []) as H. cbn [length] in H. lia. Qed.

Lemma py_int_digits n : py_int DASCII (digits n) = int_of DASCII (digits n).
Proof.
  unfold py_int. cbn [d_maxdigits DASCII]. pose proof (digits_length n) as H.
  assert (E : (4300 <? N.of_nat (length (digits n)))%N = false) by (apply N.ltb_ge; lia).
  rewrite E. reflexivity.
Qed.

Lemma digits_isdigit n : str_isdigit DASCII (digits n) = true.
Proof.
  pose proof (digits_nonempty n) as Hne. pose proof (digits_isdig n) as Hd.
  unfold str_isdigit. destruct (digits n) as [|c s]; [congruence|]. exact Hd.
Qed.

Lemma take_while_all (P : N -> bool) s : forallb P s = true -> take_while P s = s.
Proof.
  induction s as [|c s IH]; cbn [forallb take_while]; [reflexivity|].
  intros H. apply andb_true_iff in H. destruct H as [H1 H2]. rewrite H1, IH by exact H2. reflexivity.
Qed.

Lemma pin_number_at p : pin_number DASCII (AT ++ digits p) = Some (digits p).
Proof.
  unfold pin_number.
  assert (Hp : prefixb at_sp (AT ++ digits p) = true) by (apply prefixb_spec; exists (digits p); reflexivity).
  rewrite Hp. change (skipn 3 (AT ++ digits p)) with (digits p).
  change (in_ranges (d_nd DASCII)) with isdig. rewrite take_while_all by apply digits_isdig.
  pose proof (digits_nonempty p) as Hne. destruct (digits p); [congruence|reflexivity].
Qed.

Lemma str_isdigit_int p : str_isdigit DASCII p = true -> int_of DASCII p <> None.
Proof.
  intros H. destruct p as [|c s]; [discriminate|].
  destruct (int_of_some DASCII (c :: s)) as [n En]; [discriminate|exact H|]. congruence.
Qed.

(* ================================================================== *)
(* small list facts                                                    *)
(* ================================================================== *)

Lemma firstn_length_app {A} (l1 l2 : list A) : firstn (length l1) (l1 ++ l2) = l1.
Proof. induction l1 as [|x l1 IH]; cbn; [reflexivity|]. f_equal. exact IH. Qed.

Lemma forallb_false_ex {A} (f : A -> bool) l :
  forallb f l = false -> exists x, In x l /\ f x = false.
Proof.
  induction l as [|x l IH]; cbn [forallb]; [discriminate|].
  destruct (f x) eqn:E; cbn [andb].
  - intros H. destruct (IH H) as [y [Hy Hf]]. exists y. split; [right; exact Hy|exact Hf].
  - intros _. exists x. split; [left; reflexivity|exact E].
Qed.

Lemma infixb_refl x : infixb x x = true.
Proof. apply infixb_spec. exists [], []. rewrite app_nil_r. reflexivity. Qed.

(* ================================================================== *)
(* the rendered citation list                                          *)
(* ================================================================== *)

Lemma oid_render cases o e : oid (render_event cases o e) = o.
Proof. destruct e; reflexivity. Qed.

Lemma render_from_app cases l1 : forall o l2,
  render_from cases o (l1 ++ l2) = render_from cases o l1 ++ render_from cases (o + length l1) l2.
Proof.
  induction l1 as [|e l1 IH]; intros o l2; cbn [app render_from length].
  - rewrite Nat.add_0_r. reflexivity.
  - rewrite IH. replace (S o + length l1) with (o + S (length l1)) by lia. reflexivity.
Qed.

Lemma render_split cases l1 e l2 :
  render cases (l1 ++ e :: l2) =
  render cases l1 ++ render_event cases (length l1) e :: render_from cases (S (length l1)) l2.
Proof. unfold render. rewrite render_from_app. reflexivity. Qed.

Lemma render_snoc cases l1 e :
  render cases (l1 ++ [e]) = render cases l1 ++ [render_event cases (length l1) e].
Proof. rewrite render_split. reflexivity. Qed.

Lemma render_from_length cases l : forall o, length (render_from cases o l) = length l.
Proof. induction l as [|e l IH]; intros o; cbn; [reflexivity|]. rewrite IH. reflexivity. Qed.

Lemma nth_error_render_from cases l : forall o i,
  nth_error (render_from cases o l) i = option_map (render_event cases (o + i)) (nth_error l i).
Proof.
  induction l as [|e l IH]; intros o i; cbn [render_from].
  - destruct i; reflexivity.
  - destruct i as [|i]; cbn [nth_error option_map].
    + rewrite Nat.add_0_r. reflexivity.
    + rewrite IH. replace (S o + i) with (o + S i) by lia. reflexivity.
Qed.

Lemma render_oids_ok cases evs : oids_ok (render cases evs).
Proof.
  intros i c H. unfold render in H. rewrite nth_error_render_from in H.
  destruct (nth_error evs i); [|discriminate]. cbn in H. injection H as <-. apply oid_render.
Qed.

Lemma in_render_inv cases l : forall o c,
  In c (render_from cases o l) -> exists o' e, In e l /\ c = render_event cases o' e.
Proof.
  induction l as [|e l IH]; intros o c; cbn [render_from]; [intros []|].
  intros [<-|H].
  - exists o, e. split; [left; reflexivity|reflexivity].
  - destruct (IH _ _ H) as [o' [e' [Hin E]]]. exists o', e'. split; [right; exact Hin|exact E].
Qed.

Lemma in_render_intro cases l : forall o e,
  In e l -> exists o', In (render_event cases o' e) (render_from cases o l).
Proof.
  induction l as [|a l IH]; intros o e; [intros []|]. cbn [render_from].
  intros [->|H].
  - exists o. left; reflexivity.
  - destruct (IH (S o) e H) as [o' Ho]. exists o'. right; exact Ho.
Qed.

Lemma render_event_wf cases o e : cit_wf DASCII (render_event cases o e).
Proof.
  unfold cit_wf. destruct e; cbn [render_event c_cls base_cit];
    intros [H|H]; try discriminate H; (split; [eexists; reflexivity|right; eexists; reflexivity]).
Qed.

Lemma render_wf cases evs : Forall (cit_wf DASCII) (render cases evs).
Proof.
  apply Forall_forall. intros c H. destruct (in_render_inv _ _ _ _ H) as [o' [e [_ ->]]].
  apply render_event_wf.
Qed.

Lemma key_of_full cases o i :
  key_of (render_event cases o (EFull i)) = Ok (case_key (the_case cases i)).
Proof. reflexivity. Qed.

Lemma fulls_of_render_cons cases o e p :
  fulls_of (render_event cases o e :: p) =
  match e with
  | EFull j => (render_event cases o e, case_key (the_case cases j)) :: fulls_of p
  | _ => fulls_of p
  end.
Proof. destruct e; reflexivity. Qed.

Lemma fulls_in_inv cases l : forall o f k,
  In (f, k) (fulls_of (render_from cases o l)) ->
  exists o' j, In (EFull j) l /\ f = render_event cases o' (EFull j) /\ k = case_key (the_case cases j).
Proof.
  induction l as [|e l IH]; intros o f k; cbn [render_from]; [intros []|].
  rewrite fulls_of_render_cons. intros H.
  assert (Hrec : In (f, k) (fulls_of (render_from cases (S o) l)) ->
                 exists o' j, In (EFull j) (e :: l) /\ f = render_event cases o' (EFull j) /\
                              k = case_key (the_case cases j)).
  { intros H'. destruct (IH _ _ _ H') as [o' [j [Hin HE]]]. exists o', j. split; [right; exact Hin|exact HE]. }
  destruct e; try (apply Hrec; exact H).
  destruct H as [E|H]; [|apply Hrec; exact H].
  injection E as <- <-. exists o, i. split; [left; reflexivity|split; reflexivity].
Qed.

Lemma fulls_in_intro cases l : forall o j,
  In (EFull j) l ->
  exists o', In (render_event cases o' (EFull j), case_key (the_case cases j)) (fulls_of (render_from cases o l)).
Proof.
  induction l as [|e l IH]; intros o j; [intros []|]. cbn [render_from]. rewrite fulls_of_render_cons.
  intros [->|H].
  - exists o. left; reflexivity.
  - destruct (IH (S o) j H) as [o' Ho]. exists o'. destruct e; try exact Ho. right; exact Ho.
Qed.

Lemma cited_in l j :
  existsb (fun e => match e with EFull j' => Nat.eqb j j' | _ => false end) l = true <-> In (EFull j) l.
Proof.
  rewrite existsb_exists. split.
  - intros [e [Hin He]]. destruct e; try discriminate He. apply Nat.eqb_eq in He. subst. exact Hin.
  - intros H. exists (EFull j). split; [exact H|apply Nat.eqb_refl].
Qed.

Lemma cited_before_split l1 l2 j :
  cited_before (l1 ++ l2) (length l1) j = true <-> In (EFull j) l1.
Proof. unfold cited_before. rewrite firstn_length_app. apply cited_in. Qed.

Lemma cited_before_all evs j :
  cited_before evs (length evs) j = true <-> In (EFull j) evs.
Proof. unfold cited_before. rewrite firstn_all. apply cited_in. Qed.

(* ================================================================== *)
(* the intended grouping, pointwise                                    *)
(* ================================================================== *)

Definition tgt (cases : list case_desc) (all : list event) (mx : N) (n : nat) (prev : option nat)
           (e : event) : option nat :=
  match e with
  | EFull i => Some i
  | EShort i ante _ => if ante || rv_unique cases all n i then Some i else None
  | ESupra i | ERef i => Some i
  | EId pin => match prev with
               | Some j => if pin_ok mx (cd_page (the_case cases j)) pin then Some j else None
               | None => None
               end
  | EOther => None
  end.

Definition prev_of (l : list (option nat)) (n : nat) : option nat :=
  match n with O => None | S m => nth m l None end.

Lemma intended_from_cons cases all mx n prev e r :
  intended_from cases all mx n prev (e :: r) =
  tgt cases all mx n prev e :: intended_from cases all mx (S n) (tgt cases all mx n prev e) r.
Proof. destruct e; reflexivity. Qed.

Lemma intended_from_length cases all mx l : forall o pv,
  length (intended_from cases all mx o pv l) = length l.
Proof.
  induction l as [|e l IH]; intros o pv; [reflexivity|].
  rewrite intended_from_cons. cbn [length]. rewrite IH. reflexivity.
Qed.

Lemma intended_from_nth cases all mx l : forall o pv m e,
  nth_error l m = Some e ->
  nth_error (intended_from cases all mx o pv l) m =
  Some (tgt cases all mx (o + m)
            (match m with O => pv | S m' => nth m' (intended_from cases all mx o pv l) None end) e).
Proof.
  induction l as [|a l IH]; intros o pv m e H; [destruct m; discriminate H|].
  rewrite intended_from_cons. destruct m as [|m]; cbn [nth_error] in *.
  - injection H as ->. rewrite Nat.add_0_r. reflexivity.
  - rewrite (IH _ _ _ _ H). replace (S o + m) with (o + S m) by lia.
    cbn [nth]. destruct m; reflexivity.
Qed.

Lemma intended_nth cases evs mx n e :
  nth_error evs n = Some e ->
  nth_error (intended cases evs mx) n =
  Some (tgt cases evs mx n (prev_of (intended cases evs mx) n) e).
Proof. intros H. unfold intended. rewrite (intended_from_nth _ _ _ _ _ _ _ _ H). reflexivity. Qed.

Lemma intended_length cases evs mx : length (intended cases evs mx) = length evs.
Proof. apply intended_from_length. Qed.

(* every "Id. at PIN" pin is in the range where `digits` is the decimal rendering *)
Definition pins_small (evs : list event) : Prop :=
  forall n p, nth_error evs n = Some (EId (Some p)) -> (p < 10 ^ 40)%N.

(* ================================================================== *)
(* scenarios                                                           *)
(* ================================================================== *)

Definition nth_cit (cases : list case_desc) (evs : list event) (n : nat) : cit :=
  nth n (render cases evs) (base_cit 0 Unknown).

Section Scenario.
Variable cases : list case_desc.
Variable evs : list event.
Variable mx : N.
Hypothesis Hok : scenario_ok cases evs mx.
Hypothesis Hpins : pins_small evs.

Notation cs i := (the_case cases i).
Notation ck i := (case_key (the_case cases i)).

Definition keyopt (t : option nat) : option key :=
  match t with Some j => Some (ck j) | None => None end.

Lemma full_bound j : In (EFull j) evs -> j < length cases.
Proof.
  intros H. apply In_nth_error in H. destruct H as [n Hn]. exact (so_events _ _ _ Hok n _ Hn).
Qed.

Lemma ck_inj i j : i < length cases -> j < length cases -> ck i = ck j -> i = j.
Proof.
  intros Hi Hj E. destruct (Nat.eq_dec i j) as [|Hne]; [assumption|].
  exfalso. exact (so_keys _ _ _ Hok i j Hi Hj Hne E).
Qed.

Lemma page_small j : j < length cases -> (cd_page (cs j) < 10 ^ 40)%N.
Proof.
  intros Hj. pose proof (so_pages _ _ _ Hok j Hj) as H.
  assert (H3 : (10 ^ 30 < 10 ^ 40)%N) by (vm_compute; reflexivity).
  lia.
Qed.

(* entries of rendered full citations of events in l1 *)
Definition FE (l1 : list event) (G : list full_entry) : Prop :=
  forall f k, In (f, k) G ->
    exists o' j, In (EFull j) l1 /\ j < length cases /\
                 f = render_event cases o' (EFull j) /\ k = ck j.

Lemma FE_fulls l1 : (forall j, In (EFull j) l1 -> j < length cases) -> FE l1 (fulls_of (render cases l1)).
Proof.
  intros Hb f k H. destruct (fulls_in_inv _ _ _ _ _ H) as [o' [j [Hin [E1 E2]]]].
  exists o', j. repeat split; auto.
Qed.

Lemma FE_filter l1 G (p : full_entry -> bool) : FE l1 G -> FE l1 (filter p G).
Proof. intros H f k Hin. apply filter_In in Hin. apply H. tauto. Qed.

(* ---- antecedent / reference / short-form candidate tests on rendered fulls ---- *)

Lemma df_truthy i : i < length cases -> truthy_s (Some (cd_df (cs i))) = true.
Proof.
  intros Hi. destruct (so_names _ _ _ Hok i Hi) as [H _].
  destruct (cd_df (cs i)); [congruence|reflexivity].
Qed.

Lemma ante_same i o' : i < length cases ->
  ante_matches (cd_df (cs i)) (render_event cases o' (EFull i)) = true.
Proof.
  intros Hi. unfold ante_matches. cbn [render_event c_cls c_defendant c_plaintiff cls_eqb].
  rewrite (df_truthy i Hi), infixb_refl. reflexivity.
Qed.

Lemma ante_diff i j o' : i < length cases -> j < length cases -> i <> j ->
  ante_matches (cd_df (cs i)) (render_event cases o' (EFull j)) = false.
Proof.
  intros Hi Hj Hne. unfold ante_matches. cbn [render_event c_cls c_defendant c_plaintiff cls_eqb].
  destruct (so_disjoint _ _ _ Hok i j Hi Hj Hne) as [H1 H2]. rewrite H1, H2, !andb_false_r. reflexivity.
Qed.

Lemma ref_same i o' :
  ref_matches [cd_df (cs i)] (render_event cases o' (EFull i)) = true.
Proof.
  unfold ref_matches. cbn [render_event c_meta_values existsb].
  rewrite str_eqb_refl. cbn [orb]. rewrite orb_true_r. reflexivity.
Qed.

Lemma ref_diff i j o' : i < length cases -> j < length cases -> i <> j ->
  ref_matches [cd_df (cs i)] (render_event cases o' (EFull j)) = false.
Proof.
  intros Hi Hj Hne. unfold ref_matches. cbn [render_event c_meta_values existsb].
  destruct (so_disjoint _ _ _ Hok i j Hi Hj Hne) as [H1 H2].
  destruct (str_eqb_spec (cd_pl (cs j)) (cd_df (cs i))) as [E|_].
  { rewrite E, infixb_refl in H2. discriminate. }
  destruct (str_eqb_spec (cd_df (cs j)) (cd_df (cs i))) as [E|_].
  { rewrite E, infixb_refl in H1. discriminate. }
  reflexivity.
Qed.

Lemma short_cond i ante pin n j o' :
  let c := render_event cases n (EShort i ante pin) in
  let f := render_event cases o' (EFull j) in
  cls_eqb (c_cls f) FullCase &&
  match corrected_reporter c, corrected_reporter f with
  | Ok rc, Ok rf => ostr_eqb rc rf
  | _, _ => false
  end &&
  ostr_eqb (gget k_volume (c_groups c)) (gget k_volume (c_groups f))
  = str_eqb (cd_rep (cs i)) (cd_rep (cs j)) && str_eqb (cd_vol (cs i)) (cd_vol (cs j)).
Proof. reflexivity. Qed.

(* ---- the candidate sets name exactly one case ---- *)

Lemma only_key_ante l1 G i :
  FE l1 G -> i < length cases ->
  (exists o', In (render_event cases o' (EFull i), ck i) G) ->
  only_key (ck i) (ante_candidates (cd_df (cs i)) G).
Proof.
  intros HFE Hi [o' Hin]. unfold only_key, ante_candidates. split.
  - apply in_map_iff. exists (render_event cases o' (EFull i), ck i). split; [reflexivity|].
    apply filter_In. split; [exact Hin|]. cbn [fst]. apply ante_same; exact Hi.
  - intros k' Hk'. apply in_map_iff in Hk'. destruct Hk' as [[f k] [E Hf]]. cbn [snd] in E. subst k'.
    apply filter_In in Hf. destruct Hf as [Hf Hm]. cbn [fst] in Hm.
    destruct (HFE _ _ Hf) as [o2 [j [_ [Hj [-> ->]]]]].
    destruct (Nat.eq_dec i j) as [->|Hne]; [reflexivity|].
    rewrite (ante_diff i j o2 Hi Hj Hne) in Hm. discriminate.
Qed.

Lemma only_key_ref l1 G i :
  FE l1 G -> i < length cases ->
  (exists o', In (render_event cases o' (EFull i), ck i) G) ->
  only_key (ck i) (ref_candidates [cd_df (cs i)] G).
Proof.
  intros HFE Hi [o' Hin]. unfold only_key, ref_candidates. split.
  - apply in_map_iff. exists (render_event cases o' (EFull i), ck i). split; [reflexivity|].
    apply filter_In. split; [exact Hin|]. cbn [fst]. apply ref_same.
  - intros k' Hk'. apply in_map_iff in Hk'. destruct Hk' as [[f k] [E Hf]]. cbn [snd] in E. subst k'.
    apply filter_In in Hf. destruct Hf as [Hf Hm]. cbn [fst] in Hm.
    destruct (HFE _ _ Hf) as [o2 [j [_ [Hj [-> ->]]]]].
    destruct (Nat.eq_dec i j) as [->|Hne]; [reflexivity|].
    rewrite (ref_diff i j o2 Hi Hj Hne) in Hm. discriminate.
Qed.

(* ---- short forms ---- *)

Lemma short_finish_only c K k : only_key k K -> short_finish c K = Ok (Some k).
Proof.
  intros H. apply unique_key_spec in H. unfold unique_key in H. unfold short_finish.
  destruct (dedup_keys (map snd K) []) as [|a [|b t]] eqn:Ed; try discriminate H.
  injection H as ->. rewrite (dedup_single_head _ _ Ed). reflexivity.
Qed.

Lemma short_finish_two c K k1 k2 :
  In k1 (map snd K) -> In k2 (map snd K) -> k1 <> k2 ->
  short_finish c K = if truthy_s (c_antecedent c)
                     then Ok (filter_by_antecedent K (c_ante_stripped c)) else Ok None.
Proof.
  intros H1 H2 Hne. unfold short_finish.
  destruct (dedup_keys (map snd K) []) as [|a [|b t]] eqn:Ed; try reflexivity.
  exfalso. assert (Hu : unique_key (map snd K) = Some a) by (unfold unique_key; rewrite Ed; reflexivity).
  apply unique_key_spec in Hu. destruct Hu as [_ Hu]. apply Hne. rewrite (Hu _ H1), (Hu _ H2). reflexivity.
Qed.

Lemma rv_unique_true n i :
  rv_unique cases evs n i = true ->
  forall j, j < length cases -> cited_before evs n j = true -> same_rv (cs i) (cs j) = true -> i = j.
Proof.
  unfold rv_unique. intros H j Hj Hc Hs. rewrite forallb_forall in H.
  assert (Hin : In j (seq 0 (length cases))) by (apply in_seq; lia).
  specialize (H j Hin). rewrite Hc, Hs in H. cbn [negb orb] in H. rewrite orb_false_r in H.
  apply Nat.eqb_eq. exact H.
Qed.

Lemma rv_unique_false n i :
  rv_unique cases evs n i = false ->
  exists j, j < length cases /\ cited_before evs n j = true /\ same_rv (cs i) (cs j) = true /\ i <> j.
Proof.
  unfold rv_unique. intros H. apply forallb_false_ex in H. destruct H as [j [Hin Hf]].
  apply in_seq in Hin. exists j. split; [lia|].
  apply orb_false_iff in Hf. destruct Hf as [Hf H3]. apply orb_false_iff in Hf. destruct Hf as [H1 H2].
  apply negb_false_iff in H1, H3. apply Nat.eqb_neq in H2. auto.
Qed.

Lemma same_rv_cond a b :
  str_eqb (cd_rep a) (cd_rep b) && str_eqb (cd_vol a) (cd_vol b) = same_rv a b.
Proof. unfold same_rv. apply andb_comm. Qed.

Lemma short_resolves l1 l2 i ante pin rr :
  evs = l1 ++ EShort i ante pin :: l2 ->
  resolve_short (render_event cases (length l1) (EShort i ante pin)) (fulls_of (render cases l1)) = Ok rr ->
  rr = keyopt (tgt cases evs mx (length l1) None (EShort i ante pin)).
Proof.
  intros Hevs Hres. set (n := length l1) in *. set (c := render_event cases n (EShort i ante pin)) in *.
  set (F := fulls_of (render cases l1)) in *.
  assert (Hb : forall j, In (EFull j) l1 -> j < length cases).
  { intros j Hj. apply full_bound. rewrite Hevs. apply in_or_app. left; exact Hj. }
  assert (Hev : nth_error evs n = Some (EShort i ante pin)).
  { rewrite Hevs. unfold n. rewrite nth_error_app2 by lia. rewrite Nat.sub_diag. reflexivity. }
  pose proof (so_events _ _ _ Hok n _ Hev) as [Hi Hci].
  assert (Hcb : forall j, cited_before evs n j = true <-> In (EFull j) l1).
  { intros j. rewrite Hevs. apply cited_before_split. }
  rewrite resolve_short_eq in Hres. apply short_go_spec in Hres. cbn [rev app] in Hres.
  set (K := short_candidates c F) in *.
  assert (HFE : FE l1 K) by (apply FE_filter, FE_fulls; exact Hb).
  (* a cited case with the same volume and reporter is a candidate *)
  assert (HinK : forall j, In (EFull j) l1 -> same_rv (cs i) (cs j) = true ->
                           exists o', In (render_event cases o' (EFull j), ck j) K).
  { intros j Hj Hs. destruct (fulls_in_intro cases l1 0 j Hj) as [o' Ho]. exists o'.
    apply filter_In. split; [exact Ho|]. cbn [fst]. unfold c.
    rewrite (short_cond i ante pin n j o'), same_rv_cond. exact Hs. }
  assert (HK : forall f k, In (f, k) K -> exists j, In (EFull j) l1 /\ j < length cases /\
                                                     same_rv (cs i) (cs j) = true /\ k = ck j).
  { intros f k Hin. destruct (HFE _ _ Hin) as [o' [j [Hj [Hjb [-> ->]]]]].
    apply filter_In in Hin. destruct Hin as [_ Hc]. cbn [fst] in Hc. unfold c in Hc.
    rewrite (short_cond i ante pin n j o'), same_rv_cond in Hc. exists j. auto. }
  assert (Hrefl : same_rv (cs i) (cs i) = true) by (unfold same_rv; rewrite !str_eqb_refl; reflexivity).
  assert (Hself : exists o', In (render_event cases o' (EFull i), ck i) K).
  { apply HinK; [apply Hcb; exact Hci|exact Hrefl]. }
  cbn [tgt]. destruct (rv_unique cases evs n i) eqn:Erv.
  - (* one candidate case *)
    rewrite orb_true_r. cbn [keyopt].
    assert (Hok1 : only_key (ck i) K).
    { destruct Hself as [o' Ho]. split.
      - apply in_map_iff. exists (render_event cases o' (EFull i), ck i). split; [reflexivity|exact Ho].
      - intros k' Hk'. apply in_map_iff in Hk'. destruct Hk' as [[f k] [E Hf]]. cbn [snd] in E. subst k'.
        destruct (HK _ _ Hf) as [j [Hj [Hjb [Hs ->]]]].
        rewrite (rv_unique_true n i Erv j Hjb (proj2 (Hcb j) Hj) Hs). reflexivity. }
    rewrite (short_finish_only c K _ Hok1) in Hres. injection Hres as <-. reflexivity.
  - (* several candidate cases: the antecedent decides *)
    destruct (rv_unique_false n i Erv) as [j [Hjb [Hcj [Hs Hne]]]].
    destruct Hself as [o1 Ho1]. destruct (HinK j (proj1 (Hcb j) Hcj) Hs) as [o2 Ho2].
    assert (Hkne : ck i <> ck j) by (intros E; apply Hne; apply ck_inj; assumption).
    rewrite (short_finish_two c K (ck i) (ck j)) in Hres; [| | |exact Hkne].
    2:{ apply in_map_iff. exists (render_event cases o1 (EFull i), ck i). split; [reflexivity|exact Ho1]. }
    2:{ apply in_map_iff. exists (render_event cases o2 (EFull j), ck j). split; [reflexivity|exact Ho2]. }
    rewrite orb_false_r. unfold c in Hres. cbn [render_event c_antecedent c_ante_stripped] in Hres.
    destruct ante.
    + rewrite (df_truthy i Hi) in Hres. injection Hres as <-. cbn [keyopt].
      apply unique_key_spec. apply (only_key_ante l1 K i HFE Hi). exists o1; exact Ho1.
    + cbn [truthy_s] in Hres. injection Hres as <-. reflexivity.
Qed.

(* ---- id. ---- *)

Lemma Ok_inj {A} (a b : A) : Ok a = Ok b -> a = b.
Proof. intros H. congruence. Qed.

Lemma gget_page c pg : gget k_page (case_groups c pg) = Some pg.
Proof. reflexivity. Qed.

Lemma invalid_pin_full o o' j pin :
  (cd_page (cs j) < 10 ^ 40)%N -> (forall p, pin = Some p -> (p < 10 ^ 40)%N) ->
  has_invalid_pin DASCII mx (render_event cases o' (EFull j)) (render_event cases o (EId pin)) =
  Ok (negb (pin_ok mx (cd_page (cs j)) pin)).
Proof.
  intros Hpg Hpin. unfold has_invalid_pin. cbn [render_event c_cls c_groups c_pin cls_eqb].
  rewrite gget_page. cbn [andb].
  destruct pin as [p|]; [|reflexivity].
  assert (Ht : truthy_s (Some (AT ++ digits p)) = true) by reflexivity. rewrite Ht. cbn [negb].
  rewrite digits_isdigit. cbn [negb]. rewrite pin_number_at, !py_int_digits.
  rewrite (digits_int _ Hpg), (digits_int p (Hpin p eq_refl)). unfold pin_ok.
  rewrite negb_andb, !N.leb_antisym, !negb_involutive. reflexivity.
Qed.

Lemma id_resolves l1 pin s0 pv rr :
  Inv (render cases l1) s0 -> (forall j, In (EFull j) l1 -> j < length cases) ->
  lastr s0 = keyopt pv -> (forall j, pv = Some j -> j < length cases) ->
  (forall p, pin = Some p -> (p < 10 ^ 40)%N) ->
  resolve_id DASCII mx (render_event cases (length l1) (EId pin)) s0 = Ok rr ->
  rr = keyopt (tgt cases evs mx (length l1) pv (EId pin)).
Proof.
  intros HI Hb Hl Hpv Hpin Hres. unfold resolve_id in Hres. rewrite Hl in Hres. cbn [tgt].
  destruct pv as [j|]; cbn [keyopt] in *; [|injection Hres as <-; reflexivity].
  destruct (group_of (ck j) (res s0)) as [[|h t]|] eqn:Eg; try discriminate Hres.
  apply group_of_in in Eg. destruct (inv_groups _ _ HI _ _ Eg) as [h' [t' [E [Hf [Hk [_ Hsub]]]]]].
  injection E as <- <-.
  assert (Hin : In h (render cases l1)) by (eapply sublist_In; [exact Hsub|left; reflexivity]).
  destruct (in_render_inv _ _ _ _ Hin) as [o' [e [He ->]]].
  destruct e; try discriminate Hf.
  rewrite key_of_full in Hk. apply Ok_inj in Hk.
  assert (i = j) by (apply ck_inj; [apply Hb; exact He|apply Hpv; reflexivity|exact Hk]). subst i.
  rewrite (invalid_pin_full (length l1) o' j pin) in Hres;
    [|apply page_small; apply Hpv; reflexivity|exact Hpin].
  cbn [bind] in Hres. injection Hres as <-.
  destruct (pin_ok mx (cd_page (cs j)) pin); reflexivity.
Qed.

(* ---- every citation's resolver returns the intended case ---- *)

Lemma resolver_tgt l1 e l2 s0 pv rr fl :
  evs = l1 ++ e :: l2 ->
  Inv (render cases l1) s0 ->
  lastr s0 = keyopt pv -> (forall j, pv = Some j -> j < length cases) ->
  resolver DASCII mx s0 (render_event cases (length l1) e) = Ok (rr, fl) ->
  rr = keyopt (tgt cases evs mx (length l1) pv e).
Proof.
  intros Hevs HI Hl Hpv Hres. set (n := length l1) in *.
  assert (Hb : forall j, In (EFull j) l1 -> j < length cases).
  { intros j Hj. apply full_bound. rewrite Hevs. apply in_or_app. left; exact Hj. }
  assert (Hev : nth_error evs n = Some e).
  { rewrite Hevs. unfold n. rewrite nth_error_app2 by lia. rewrite Nat.sub_diag. reflexivity. }
  pose proof (so_events _ _ _ Hok n _ Hev) as Hse.
  assert (Hcb : forall j, cited_before evs n j = true <-> In (EFull j) l1).
  { intros j. rewrite Hevs. apply cited_before_split. }
  pose proof (inv_fulls _ _ HI) as HF.
  assert (HFE : FE l1 (fulls_of (render cases l1))) by (apply FE_fulls; exact Hb).
  unfold resolver in Hres. destruct e; cbn [render_event c_cls base_cit] in Hres.
  - (* full *)
    change (key_of _) with (@Ok key (ck i)) in Hres.
    cbn [bind] in Hres. injection Hres as <- _. reflexivity.
  - (* short *)
    rewrite HF in Hres.
    destruct (resolve_short _ (fulls_of (render cases l1))) as [r0|err] eqn:Er; cbn [bind] in Hres;
      [|discriminate Hres].
    injection Hres as <- _.
    rewrite (short_resolves l1 l2 i ante pin r0 Hevs Er). reflexivity.
  - (* supra *)
    injection Hres as <- _. rewrite HF. destruct Hse as [Hi Hci]. cbn [tgt keyopt].
    apply resolve_supra_spec. cbn [c_antecedent c_ante_stripped]. split; [apply df_truthy; exact Hi|].
    apply (only_key_ante l1 _ i HFE Hi). apply (fulls_in_intro cases l1 0 i). apply Hcb; exact Hci.
  - (* reference *)
    injection Hres as <- _. rewrite HF. destruct Hse as [Hi Hci]. cbn [tgt keyopt].
    apply resolve_ref_spec. cbn [c_names]. split; [discriminate|].
    apply (only_key_ref l1 _ i HFE Hi). apply (fulls_in_intro cases l1 0 i). apply Hcb; exact Hci.
  - (* id *)
    match type of Hres with context [resolve_id ?D ?m ?c ?s] =>
      destruct (resolve_id D m c s) as [r0|err] eqn:Er end; cbn [bind] in Hres; [|discriminate Hres].
    injection Hres as <- _.
    apply (id_resolves l1 pin s0 pv r0 HI Hb Hl Hpv); [|exact Er].
    intros p ->. exact (Hpins n p Hev).
  - (* other *)
    injection Hres as <- _. reflexivity.
Qed.

Lemma intended_bound : forall n j,
  nth_error (intended cases evs mx) n = Some (Some j) -> j < length cases.
Proof.
  induction n as [|n IH]; intros j H.
  - destruct (nth_error evs 0) as [e|] eqn:Ee.
    + rewrite (intended_nth _ _ _ _ _ Ee) in H. injection H as H.
      pose proof (so_events _ _ _ Hok 0 e Ee) as Hse. cbn [prev_of] in H.
      destruct e; cbn [tgt] in H; try discriminate H.
      * injection H as <-. exact Hse.
      * destruct (ante || rv_unique cases evs 0 i); [|discriminate H]. injection H as <-. tauto.
      * injection H as <-. tauto.
      * injection H as <-. tauto.
    + apply nth_error_None in Ee. rewrite <- intended_length with (cases := cases) (mx := mx) in Ee.
      apply nth_error_None in Ee. congruence.
  - destruct (nth_error evs (S n)) as [e|] eqn:Ee.
    + rewrite (intended_nth _ _ _ _ _ Ee) in H. injection H as H.
      pose proof (so_events _ _ _ Hok (S n) e Ee) as Hse. cbn [prev_of] in H.
      destruct e; cbn [tgt] in H; try discriminate H.
      * injection H as <-. exact Hse.
      * destruct (ante || rv_unique cases evs (S n) i); [|discriminate H]. injection H as <-. tauto.
      * injection H as <-. tauto.
      * injection H as <-. tauto.
      * destruct (nth n (intended cases evs mx) None) as [j'|] eqn:En; [|discriminate H].
        destruct (pin_ok mx (cd_page (cs j')) pin); [|discriminate H]. injection H as <-.
        apply IH. assert (Hlt : n < length (intended cases evs mx)).
        { rewrite intended_length. apply Nat.lt_succ_l. apply nth_error_Some. congruence. }
        rewrite (nth_error_nth' _ None Hlt). rewrite En. reflexivity.
    + apply nth_error_None in Ee. rewrite <- intended_length with (cases := cases) (mx := mx) in Ee.
      apply nth_error_None in Ee. congruence.
Qed.

Lemma prev_bound n j : prev_of (intended cases evs mx) n = Some j -> j < length cases.
Proof.
  destruct n as [|n]; cbn [prev_of]; [discriminate|]. intros H.
  destruct (Nat.lt_ge_cases n (length (intended cases evs mx))) as [Hlt|Hge].
  - apply (intended_bound n). rewrite (nth_error_nth' _ None Hlt), H. reflexivity.
  - rewrite nth_overflow in H by exact Hge. discriminate.
Qed.

(* last_resolution after a prefix = the case intended for its last citation *)
Lemma lastr_prefix : forall l1 l2 s0,
  evs = l1 ++ l2 -> run DASCII mx rinit (render cases l1) = Ok s0 ->
  lastr s0 = keyopt (prev_of (intended cases evs mx) (length l1)).
Proof.
  induction l1 as [|e l1 IH] using rev_ind; intros l2 s0 Hevs Hrun.
  - cbn in Hrun. injection Hrun as <-. reflexivity.
  - rewrite <- app_assoc in Hevs. cbn [app] in Hevs.
    rewrite render_snoc, run_app in Hrun.
    destruct (run DASCII mx rinit (render cases l1)) as [s1|err] eqn:E1; cbn [bind run] in Hrun;
      [|discriminate Hrun].
    destruct (Resolve.step DASCII mx s1 (render_event cases (length l1) e)) as [s2|err] eqn:E2;
      cbn [bind] in Hrun; [|discriminate Hrun].
    injection Hrun as <-.
    destruct (step_ok _ _ _ _ _ E2) as [r [fl [Hres ->]]]. cbn [lastr].
    assert (HI : Inv (render cases l1) s1).
    { apply (inv_run DASCII mx (render cases l1) [] rinit s1); [apply render_oids_ok|apply inv_init|exact E1]. }
    rewrite (resolver_tgt l1 e l2 s1 _ r fl Hevs HI (IH _ _ Hevs eq_refl) (prev_bound _) Hres).
    rewrite app_length. cbn [length]. rewrite Nat.add_1_r. cbn [prev_of].
    assert (Hev : nth_error evs (length l1) = Some e).
    { rewrite Hevs. rewrite nth_error_app2 by lia. rewrite Nat.sub_diag. reflexivity. }
    rewrite (nth_error_nth _ _ None (intended_nth _ _ mx _ _ Hev)). reflexivity.
Qed.

(* ---- assembling ---- *)

Lemma nth_cit_split l1 e l2 :
  evs = l1 ++ e :: l2 -> nth_cit cases evs (length l1) = render_event cases (length l1) e.
Proof.
  intros Hevs. unfold nth_cit. rewrite Hevs, render_split.
  rewrite app_nth2 by (unfold render; rewrite render_from_length; lia).
  unfold render. rewrite render_from_length, Nat.sub_diag. reflexivity.
Qed.

Lemma intended_event n t :
  nth_error (intended cases evs mx) n = Some t -> exists e, nth_error evs n = Some e.
Proof.
  intros H. destruct (nth_error evs n) as [e|] eqn:Ee; [eauto|].
  apply nth_error_None in Ee. rewrite <- intended_length with (cases := cases) (mx := mx) in Ee.
  apply nth_error_None in Ee. congruence.
Qed.

(* the citation written for event n is attached to exactly the intended case *)
Lemma own_resolution r n e :
  resolve DASCII mx (render cases evs) = Ok r -> nth_error evs n = Some e ->
  forall k, member r k (nth_cit cases evs n) <->
            keyopt (tgt cases evs mx n (prev_of (intended cases evs mx) n) e) = Some k.
Proof.
  intros Hr Hev k. destruct (nth_error_split _ _ Hev) as [l1 [l2 [Hevs Hlen]]]. subst n.
  rewrite (nth_cit_split l1 e l2 Hevs).
  pose proof (render_oids_ok cases evs) as Hoid.
  assert (Hsplit : render cases evs = render cases l1 ++ render_event cases (length l1) e ::
                                      render_from cases (S (length l1)) l2).
  { rewrite Hevs at 1. apply render_split. }
  rewrite Hsplit in Hr, Hoid.
  destruct (own_step DASCII mx _ _ _ r Hoid Hr) as [s0 [rr [fl [Hrun [HI [Hres [_ Hm]]]]]]].
  pose proof (lastr_prefix l1 (e :: l2) s0 Hevs Hrun) as Hl.
  rewrite (resolver_tgt l1 e l2 s0 _ rr fl Hevs HI Hl (prev_bound _) Hres) in Hm.
  apply Hm.
Qed.

Theorem scenario_resolution_sec :
  exists r, resolve DASCII mx (render cases evs) = Ok r /\
    (forall n i, nth_error (intended cases evs mx) n = Some (Some i) ->
                 member r (ck i) (nth_cit cases evs n)) /\
    (forall n, nth_error (intended cases evs mx) n = Some None ->
               forall k, ~ member r k (nth_cit cases evs n)) /\
    (forall k, In k (map fst r) <->
               exists i, i < length cases /\ cited_before evs (length evs) i = true /\ k = ck i).
Proof.
  pose proof (render_oids_ok cases evs) as Hoid.
  destruct (resolve_total DASCII mx (render cases evs) Hoid (render_wf _ _)) as [r Hr].
  exists r. split; [exact Hr|]. split; [|split].
  - intros n i Hn. destruct (intended_event _ _ Hn) as [e He].
    rewrite (intended_nth _ _ mx _ _ He) in Hn. injection Hn as Hn.
    apply (own_resolution r n e Hr He). rewrite Hn. reflexivity.
  - intros n Hn k Hm. destruct (intended_event _ _ Hn) as [e He].
    rewrite (intended_nth _ _ mx _ _ He) in Hn. injection Hn as Hn.
    apply (own_resolution r n e Hr He) in Hm. rewrite Hn in Hm. discriminate Hm.
  - intros k. split.
    + intros Hin. apply in_map_iff in Hin. destruct Hin as [[k' m] [E Hin]]. cbn [fst] in E. subst k'.
      destruct (resolve_group_head DASCII mx _ _ Hoid Hr k m Hin) as [h [t [-> [Hf Hk]]]].
      pose proof (resolve_groups_sublist DASCII mx _ _ Hoid Hr k _ Hin) as Hsub.
      assert (Hh : In h (render cases evs)) by (eapply sublist_In; [exact Hsub|left; reflexivity]).
      destruct (in_render_inv _ _ _ _ Hh) as [o' [e [He ->]]].
      destruct e; try discriminate Hf. rewrite key_of_full in Hk. apply Ok_inj in Hk.
      exists i. split; [apply full_bound; exact He|]. split; [apply cited_before_all; exact He|].
      symmetry; exact Hk.
    + intros [i [Hi [Hc ->]]]. apply cited_before_all in Hc.
      destruct (in_render_intro cases evs 0 _ Hc) as [o' Ho].
      destruct (resolve_full_grouped DASCII mx _ _ Hoid Hr _ Ho eq_refl) as [k [Hk [m [Hin _]]]].
      rewrite key_of_full in Hk. apply Ok_inj in Hk. subst k. eapply in_fst; exact Hin.
Qed.

End Scenario.

(* ================================================================== *)
(* C05                                                                 *)
(* ================================================================== *)

Theorem scenario_resolution : forall cases evs mx,
  scenario_ok cases evs mx -> pins_small evs ->
  exists r, resolve DASCII mx (render cases evs) = Ok r /\
    (* every reference the author could resolve is grouped with the case it was written for *)
    (forall n i, nth_error (intended cases evs mx) n = Some (Some i) ->
                 member r (case_key (the_case cases i)) (nth_cit cases evs n)) /\
    (* the others (impossible id. pin cite, id. after an unresolved citation, ambiguous short form,
       section-sign citations) are left out rather than attached elsewhere *)
    (forall n, nth_error (intended cases evs mx) n = Some None ->
               forall k, ~ member r k (nth_cit cases evs n)) /\
    (* exactly one resource per distinct case cited in full *)
    (forall k, In k (map fst r) <->
               exists i, (i < length cases)%nat /\ cited_before evs (length evs) i = true /\
                         k = case_key (the_case cases i)).
Proof. intros cases evs mx Hok Hpins. exact (scenario_resolution_sec cases evs mx Hok Hpins). Qed.

(* ================================================================== *)
(* the hypothesis pins_small is needed                                 *)
(* ================================================================== *)

(* One case "1 U 5", cited in full and followed by "Id. at 10^40+5".  The author's pin is far
   outside the opinion, so `intended` leaves the id. out; but `digits` (fuel 40) renders the pin
   as "00...05", which the model reads as page 5 and attaches to the case. *)
Definition cex_cases : list case_desc :=
  [{| cd_vol := [49%N]; cd_rep := [85%N]; cd_page := 5%N; cd_pl := [65%N]; cd_df := [66%N] |}].
Definition cex_evs : list event := [EFull 0; EId (Some (10 ^ 40 + 5)%N)].

Lemma cex_ok : scenario_ok cex_cases cex_evs 150%N.
Proof.
  constructor.
  - intros i j Hi Hj Hne. cbn in Hi, Hj. lia.
  - intros i Hi. cbn in Hi. assert (i = 0) by lia. subst i. split; discriminate.
  - intros i j Hi Hj Hne. cbn in Hi, Hj. lia.
  - intros n e H. destruct n as [|[|n]]; cbn [nth_error cex_evs] in H.
    + assert (E : e = EFull 0) by congruence. subst e. cbn [length cex_cases]. lia.
    + assert (E : e = EId (Some (10 ^ 40 + 5)%N)) by congruence. subst e. exact I.
    + destruct n; discriminate H.
  - intros i Hi. cbn in Hi. assert (i = 0) by lia. subst i. vm_compute. reflexivity.
Qed.

Theorem scenario_resolution_needs_small_pins :
  ~ (forall cases evs mx, scenario_ok cases evs mx ->
       exists r, resolve DASCII mx (render cases evs) = Ok r /\
         (forall n i, nth_error (intended cases evs mx) n = Some (Some i) ->
                      member r (case_key (the_case cases i)) (nth_cit cases evs n)) /\
         (forall n, nth_error (intended cases evs mx) n = Some None ->
                    forall k, ~ member r k (nth_cit cases evs n)) /\
         (forall k, In k (map fst r) <->
                    exists i, (i < length cases)%nat /\ cited_before evs (length evs) i = true /\
                              k = case_key (the_case cases i))).
Proof.
  intros H. destruct (H _ _ _ cex_ok) as [r [Hr [_ [H3 _]]]].
  assert (Hn : nth_error (intended cex_cases cex_evs 150%N) 1 = Some None) by (vm_compute; reflexivity).
  apply (H3 1 Hn (case_key (the_case cex_cases 0))).
  vm_compute in Hr. injection Hr as <-.
  eexists. split; [left; reflexivity|]. right; left. vm_compute. reflexivity.
Qed.
