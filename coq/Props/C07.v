(* C07 -- resolution never guesses between candidates; id. follows only its
   predecessor.  Statements only.  p = the citations before c. *)
From EV Require Import Base.Str Base.PyVal Regex.Syntax Regex.Decl Model.Tokenize Model.Resolve Proofs.ResolveSpec Proofs.ResolveProofs
  Model.StripPunct Proofs.StripPunctProofs Gen.Unicode Gen.StripPunct.
From Coq Require Import List.
Import ListNotations.

(* short form: only a previously cited case with the same corrected reporter and
   volume, and only if unique, or unique among those whose party names contain
   the antecedent *)
Theorem C07_short : forall D mx p c q r, oids_ok (p ++ c :: q) ->
  resolve D mx (p ++ c :: q) = Ok r -> c_cls c = ShortCase ->
  forall k, member r k c ->
    let K := short_candidates c (fulls_of p) in
    In k (map snd K) /\
    (only_key k K \/
     (truthy_s (c_antecedent c) = true /\ only_key k (ante_candidates (c_ante_stripped c) K))).
Proof. exact resolve_short_sound. Qed.
Print Assumptions C07_short.

(* supra: attached to k iff k is the ONLY key among earlier full case citations
   whose party names contain the antecedent *)
Theorem C07_supra : forall D mx p c q r, oids_ok (p ++ c :: q) ->
  resolve D mx (p ++ c :: q) = Ok r -> c_cls c = Supra ->
  forall k, (member r k c <->
             truthy_s (c_antecedent c) = true /\
             only_key k (ante_candidates (c_ante_stripped c) (fulls_of p))).
Proof. exact resolve_supra_iff. Qed.
Print Assumptions C07_supra.

Theorem C07_reference : forall D mx p c q r, oids_ok (p ++ c :: q) ->
  resolve D mx (p ++ c :: q) = Ok r -> c_cls c = Ref ->
  forall k, (member r k c <->
             c_names c <> [] /\ only_key k (ref_candidates (c_names c) (fulls_of p))).
Proof. exact resolve_ref_iff. Qed.
Print Assumptions C07_reference.

(* id.: only the resource of the citation immediately before it, and only with a plausible pin cite *)
Theorem C07_id : forall D mx p c q r, oids_ok (p ++ c :: q) ->
  resolve D mx (p ++ c :: q) = Ok r -> c_cls c = IdC ->
  forall k, member r k c ->
    exists p' prev h t, p = p' ++ [prev] /\ member r k prev /\
      In (k, h :: t) r /\ has_invalid_pin D mx h c = Ok false.
Proof. exact resolve_id_sound. Qed.
Print Assumptions C07_id.

Theorem C07_id_first : forall D mx c q r, oids_ok (c :: q) ->
  resolve D mx (c :: q) = Ok r -> c_cls c = IdC -> forall k, ~ member r k c.
Proof. exact resolve_id_none. Qed.
Print Assumptions C07_id_first.

(* strip_punct (eyecite/utils.py), the normalisation applied to the antecedent before it is compared with
   party names: modelled as the live chain of re.sub steps + str.strip() (Model/StripPunct.v, steps
   regenerated in Gen/StripPunct.v).  For EVERY text and EVERY step list the result has no white space at
   either edge, and a step whose pattern has no match leaves the text unchanged. *)
Theorem C07_strip_punct_edges : forall U steps s,
  (forall c t, strip_punct U steps s = c :: t -> is_space U c = false) /\
  (forall t c, strip_punct U steps s = t ++ [c] -> is_space U c = false).
Proof. exact strip_punct_edges. Qed.
Print Assumptions C07_strip_punct_edges.

Theorem C07_strip_punct_step_no_match : forall U r g s,
  (forall i j, ~ Regex.Decl.M U false s r i j) -> re_sub U r g s = s.
Proof. exact re_sub_no_match. Qed.
Print Assumptions C07_strip_punct_step_no_match.

(* strip_punct only removes characters: for EVERY text and step list (replacement = nothing or the text of a
   group of the match) the result is never longer than the input (engine soundness: captures lie inside the
   match, successive matches do not overlap) *)
Theorem C07_strip_punct_shrinks : forall U steps s,
  (length (strip_punct U steps s) <= length s)%nat.
Proof. exact strip_punct_length_le. Qed.
Print Assumptions C07_strip_punct_shrinks.

(* strip_punct invents nothing: every character of the normalised antecedent occurs in the written one, so the
   containment test against party names never succeeds on characters the document does not contain *)
Theorem C07_strip_punct_chars : forall U steps s x,
  In x (strip_punct U steps s) -> In x s.
Proof. exact strip_punct_chars. Qed.
Print Assumptions C07_strip_punct_chars.

(* strip_punct ONLY DELETES: for every text and step list the result is a subsequence of the input (same characters
   in the same order, possibly with gaps) -- the strongest "what must not change" statement for a normalisation
   whose replacements are "" or a group of the match; it implies the two theorems above *)
Theorem C07_strip_punct_only_deletes : forall U steps s,
  sublist (strip_punct U steps s) s.
Proof. exact strip_punct_sublist. Qed.
Print Assumptions C07_strip_punct_only_deletes.

(* non-vacuity: the live chain on a concrete antecedent *)
Example C07_strip_punct_example :
  strip_punct Gen.Unicode.U Gen.StripPunct.strip_punct_steps
    [34;79;39;66;114;105;101;110;44;32;73;110;99;46;41;32]%N   (* double quote, O'Brien, Inc.) and a blank *)
  = [79;66;114;105;101;110;32;73;110;99]%N.                       (* OBrien Inc *)
Proof. vm_compute. reflexivity. Qed.
