(* C07 -- resolution never guesses between candidates; id. follows only its
   predecessor.  Statements only.  p = the citations before c. *)
From EV Require Import Base.Str Base.PyVal Model.Tokenize Model.Resolve Proofs.ResolveSpec Proofs.ResolveProofs.

(* short form: only a previously cited case with the same corrected reporter and
   volume, and only if unique, or unique among those whose party names contain
   the antecedent *)
Theorem C07_short : forall D mx p c q r, oids_ok (p ++ c :: q) ->
  resolve D mx (p ++ c :: q) = Ok r -> c_cls c = ShortCase ->
  forall k, member r k c ->
    let K := short_candidates c (fulls_of p) in
    In k (map snd K) /\
    (only_key k K \/
     (truthy_s (c_antecedent c) = true /\ only_key k (ante_candidates (c_ante_stripped c) K))).
Proof. exact resolve_short_sound. Qed.
Print Assumptions C07_short.

(* supra: attached to k iff k is the ONLY key among earlier full case citations
   whose party names contain the antecedent *)
Theorem C07_supra : forall D mx p c q r, oids_ok (p ++ c :: q) ->
  resolve D mx (p ++ c :: q) = Ok r -> c_cls c = Supra ->
  forall k, (member r k c <->
             truthy_s (c_antecedent c) = true /\
             only_key k (ante_candidates (c_ante_stripped c) (fulls_of p))).
Proof. exact resolve_supra_iff. Qed.
Print Assumptions C07_supra.

Theorem C07_reference : forall D mx p c q r, oids_ok (p ++ c :: q) ->
  resolve D mx (p ++ c :: q) = Ok r -> c_cls c = Ref ->
  forall k, (member r k c <->
             c_names c <> [] /\ only_key k (ref_candidates (c_names c) (fulls_of p))).
Proof. exact resolve_ref_iff. Qed.
Print Assumptions C07_reference.

(* id.: only the resource of the citation immediately before it, and only with a plausible pin cite *)
Theorem C07_id : forall D mx p c q r, oids_ok (p ++ c :: q) ->
  resolve D mx (p ++ c :: q) = Ok r -> c_cls c = IdC ->
  forall k, member r k c ->
    exists p' prev h t, p = p' ++ [prev] /\ member r k prev /\
      In (k, h :: t) r /\ has_invalid_pin D mx h c = Ok false.
Proof. exact resolve_id_sound. Qed.
Print Assumptions C07_id.

Theorem C07_id_first : forall D mx c q r, oids_ok (c :: q) ->
  resolve D mx (c :: q) = Ok r -> c_cls c = IdC -> forall k, ~ member r k c.
Proof. exact resolve_id_none. Qed.
Print Assumptions C07_id_first.
