(* C10 -- annotations enclose exactly the cited characters, in order.
   Statements only. *)
From EV Require Import Base.Str Base.PyVal Model.Annotate Proofs.AnnotateProofs.
Open Scope Z_scope.

(* without a source text (mode unchecked): an annotation that starts at or after
   the end of every annotation sorted before it appears exactly once as
   before + text[start:end] + after, right after the first `start` characters *)
Theorem C10_plain_exact : forall bal tol text annots l1 a l2,
  annots_in_range (zlen text) annots ->
  sort_annots annots = l1 ++ a :: l2 ->
  a_start a < a_end a ->
  (forall a', In a' l1 -> a_end a' <= a_start a) ->
  exists ps q1 q2, annotate bal tol text None Unchecked annots = Ok ps /\
    ps = q1 ++ Ins (a_before a) :: Orig (pyslice text (a_start a) (a_end a)) :: Ins (a_after a) :: q2 /\
    strip q1 = pyslice text 0 (a_start a).
Proof. exact annotate_plain_exact. Qed.
Print Assumptions C10_plain_exact.

(* the translation of plain offsets to source offsets never raises (non-empty plain text),
   stays within the source, and is monotone -- for ANY diff script accounting for both texts *)
Theorem C10_update_total : forall st la lb right x,
  steps_ok st la lb -> 0 < la -> 0 <= x <= la -> exists y, update (mk st) right x = Ok y.
Proof. exact update_total. Qed.
Print Assumptions C10_update_total.

Theorem C10_update_in_range : forall st la lb right x y,
  steps_ok st la lb -> 0 <= x <= la -> update (mk st) right x = Ok y -> 0 <= y <= lb.
Proof. exact update_in_range. Qed.
Print Assumptions C10_update_in_range.

Theorem C10_update_monotone : forall st la lb right x x' y y',
  steps_ok st la lb -> 0 <= x <= x' -> x' <= la ->
  update (mk st) right x = Ok y -> update (mk st) right x' = Ok y' -> y <= y'.
Proof. exact update_monotone. Qed.
Print Assumptions C10_update_monotone.

(* start (bisect_right) and end (bisect_left) of a span keep their order *)
Theorem C10_update_left_le_right : forall st la lb x x' y y',
  steps_ok st la lb -> 0 <= x <= x' -> x' <= la ->
  update (mk st) false x = Ok y -> update (mk st) true x' = Ok y' -> y <= y'.
Proof. exact update_left_le_right. Qed.
Print Assumptions C10_update_left_le_right.

(* forced alignment (source = plain + inserted material, script insert-only):
   the start of a span goes to the position of its first plain character, the
   end to one past the position of its last plain character *)
Theorem C10_forced_start : forall st la lb x,
  steps_ok st la lb -> insert_only st -> 0 <= x < la ->
  update (mk st) true x = Ok (nth (Z.to_nat x) (emb st) 0).
Proof. exact forced_alignment_start. Qed.
Print Assumptions C10_forced_start.

Theorem C10_forced_end : forall st la lb x,
  steps_ok st la lb -> insert_only st -> 0 < x <= la ->
  update (mk st) false x = Ok (nth (Z.to_nat (x - 1)) (emb st) 0 + 1).
Proof. exact forced_alignment_end. Qed.
Print Assumptions C10_forced_end.

Theorem C10_emb_length : forall st la lb, steps_ok st la lb -> insert_only st -> zlen (emb st) = la.
Proof. exact emb_length. Qed.
Print Assumptions C10_emb_length.

(* the plain characters keep their relative order in the source *)
Theorem C10_emb_increasing : forall st la lb i j, steps_ok st la lb -> insert_only st ->
  (i < j < length (emb st))%nat -> nth i (emb st) 0 < nth j (emb st) 0 < lb.
Proof. exact emb_increasing. Qed.
Print Assumptions C10_emb_increasing.

(* non-vacuity: "ab" -> "a<i>b": offset 1 as a start goes after the tag, as an end before it;
   offset 0 as an end stays at 0 (it used to wrap around to 3) *)
Example C10_nonvacuous :
  let st := [(OpEq, 1%nat); (OpIns, 3%nat); (OpEq, 1%nat)] in
  steps_ok st 2 5 /\ insert_only st /\ emb st = [0; 4] /\
  update (mk st) true 1 = Ok 4 /\ update (mk st) false 1 = Ok 1 /\ update (mk st) false 0 = Ok 0.
Proof. vm_compute. repeat split; repeat constructor; discriminate. Qed.
