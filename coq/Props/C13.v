(* C13 -- the Aho-Corasick pre-filter is lossless.  Statements only.
   `in_table x`: x is a row (index, pattern, IGNORECASE, normalised strings) of
   the table regenerated from the live EXTRACTORS list.  M = declarative match
   relation (Regex/Decl.v); NormOf = identity for case-sensitive extractors,
   Python's str.lower() for case-insensitive ones. *)
From EV Require Import Base.Str Regex.Syntax Regex.Decl Regex.Literal Regex.LiteralSound Regex.C13Check.
From EV Require Import Gen.Unicode Gen.Lower Gen.ExtractorsAll Proofs.C13Proofs.

(* every extractor of the live list passes the kernel-run literal check, fully
   or for texts free of the offending case variants (Gen/Lower.v: offending) *)
Theorem C13_table_checked : forall x, in_table x -> strict_ok x = true \/ partial_ok x = true.
Proof. exact table_checked. Qed.
Print Assumptions C13_table_checked.

(* every string matched by an extractor's pattern contains one of the literal
   strings the filter associates with that extractor -- for EVERY text *)
Theorem C13_literals : forall x s i j T,
  strict_ok x = true -> row_lits x <> [] ->
  M U (row_ci x) s (row_re x) i j -> NormOf (row_ci x) lower1 s T ->
  exists l, In l (row_lits x) /\ infix l T.
Proof. exact strict_sound. Qed.
Print Assumptions C13_literals.

(* ... and for the remaining extractors, for every text without the offending characters *)
Theorem C13_literals_partial : forall x s i j T,
  partial_ok x = true -> row_lits x <> [] -> clean is_offending s ->
  M U (row_ci x) s (row_re x) i j -> NormOf (row_ci x) lower1 s T ->
  exists l, In l (row_lits x) /\ infix l T.
Proof. exact partial_sound. Qed.
Print Assumptions C13_literals_partial.

(* an extractor is skipped only if its pattern cannot match the text: holds for
   every sub-list of extractors because it is a per-extractor statement *)
Theorem C13_skipped_cannot_match : forall x s T,
  in_table x -> strict_ok x = true -> NormOf (row_ci x) lower1 s T ->
  selected x T = false -> forall i j, ~ M U (row_ci x) s (row_re x) i j.
Proof. exact skipped_cannot_match. Qed.
Print Assumptions C13_skipped_cannot_match.

Theorem C13_skipped_cannot_match_partial : forall x s T,
  in_table x -> clean is_offending s -> NormOf (row_ci x) lower1 s T ->
  selected x T = false -> forall i j, ~ M U (row_ci x) s (row_re x) i j.
Proof. exact skipped_cannot_match_partial. Qed.
Print Assumptions C13_skipped_cannot_match_partial.

(* the analysis itself *)
Theorem C13_analysis_sound : forall U ci lower1 absent r lits s i j T,
  clean absent s -> literal_check U ci lower1 absent r lits = true ->
  M U ci s r i j -> NormOf ci lower1 s T -> exists l, In l lits /\ infix l T.
Proof. exact literal_check_sound. Qed.
Print Assumptions C13_analysis_sound.

(* ---- the same statement about the EXECUTABLE tokenizer model (Model/Extract.v: candidates computed
   from the text by the verified engine over the live table): on every text free of the offending case
   variants, the Aho-Corasick tokenizer yields exactly the candidate list of the reference tokenizer,
   in the same order ---- *)
From EV Require Import Model.Tokenize Model.Extract Model.E2E Gen.ExtractTable Proofs.ExtractProofs.

Theorem C13_filter_lossless : forall s T, clean is_offending s -> NormOf true lower1 s T ->
  extract_ac U xtable s T = extract_all U xtable s.
Proof. exact ac_lossless. Qed.
Print Assumptions C13_filter_lossless.

Theorem C13_tokenizers_agree : forall s, clean is_offending s -> candidates_text s = candidates_text_ref s.
Proof. exact candidates_text_lossless. Qed.
Print Assumptions C13_tokenizers_agree.

(* for EVERY text the filter only removes candidates *)
Theorem C13_filter_sub : forall table s low t, In t (extract_ac U table s low) -> In t (extract_all U table s).
Proof. exact (extract_ac_sub U). Qed.
Print Assumptions C13_filter_sub.
