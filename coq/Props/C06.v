(* C06 -- resolution output is a faithful, ordered partition of the resolved
   citations.  Statements only.  `oids_ok cs` says object identity = position
   in the input list; D = digit tables, mx = MAX_OPINION_PAGE_COUNT (any value). *)
From EV Require Import Base.Str Base.PyVal Model.Tokenize Model.Resolve Proofs.ResolveSpec Proofs.ResolveProofs.

(* every group is a sub-sequence of the input: same objects, input order, nothing invented *)
Theorem C06_groups_are_subsequences : forall D mx cs r, oids_ok cs -> resolve D mx cs = Ok r ->
  forall k m, In (k, m) r -> sublist m cs.
Proof. exact resolve_groups_sublist. Qed.
Print Assumptions C06_groups_are_subsequences.

(* pairwise disjoint, nothing repeated *)
Theorem C06_members_disjoint : forall D mx cs r, oids_ok cs -> resolve D mx cs = Ok r ->
  NoDup (map oid (concat (map snd r))).
Proof. exact resolve_members_nodup. Qed.
Print Assumptions C06_members_disjoint.

Theorem C06_keys_distinct : forall D mx cs r, oids_ok cs -> resolve D mx cs = Ok r ->
  NoDup (map fst r).
Proof. exact resolve_keys_nodup. Qed.
Print Assumptions C06_keys_distinct.

(* every list starts with a full citation whose hash key is the group's key *)
Theorem C06_group_starts_with_full : forall D mx cs r, oids_ok cs -> resolve D mx cs = Ok r ->
  forall k m, In (k, m) r -> exists h t, m = h :: t /\ is_full (c_cls h) = true /\ key_of h = Ok k.
Proof. exact resolve_group_head. Qed.
Print Assumptions C06_group_starts_with_full.

(* every full citation appears under a resource (exactly one, by disjointness) *)
Theorem C06_every_full_grouped : forall D mx cs r, oids_ok cs -> resolve D mx cs = Ok r ->
  forall c, In c cs -> is_full (c_cls c) = true -> exists k, key_of c = Ok k /\ member r k c.
Proof. exact resolve_full_grouped. Qed.
Print Assumptions C06_every_full_grouped.

(* two full citations share a resource exactly when their hash keys are equal *)
Theorem C06_same_group_iff_equal : forall D mx cs r, oids_ok cs -> resolve D mx cs = Ok r ->
  forall a b, In a cs -> In b cs -> is_full (c_cls a) = true -> is_full (c_cls b) = true ->
  ((exists k, member r k a /\ member r k b) <-> key_of a = key_of b).
Proof. exact resolve_same_group_iff. Qed.
Print Assumptions C06_same_group_iff_equal.

(* unknown (section-sign) citations never appear *)
Theorem C06_no_unknown : forall D mx cs r, oids_ok cs -> resolve D mx cs = Ok r ->
  forall k c, member r k c -> c_cls c <> Unknown.
Proof. exact resolve_no_unknown. Qed.
Print Assumptions C06_no_unknown.

(* key equality is what the hash compares *)
Theorem C06_key_equality : forall a b, key_eqb a b = true <-> a = b.
Proof. exact key_eqb_eq. Qed.
Print Assumptions C06_key_equality.
