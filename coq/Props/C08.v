(* C08 -- resolution is online: later citations never change earlier groupings. *)
From EV Require Import Base.Str Base.PyVal Model.Tokenize Model.Resolve Proofs.ResolveSpec Proofs.ResolveProofs.

(* resolving a prefix = restricting the resolution of the whole list to that
   prefix: same resources, same members, same order *)
Theorem C08_prefix : forall D mx l1 l2 r, oids_ok (l1 ++ l2) -> resolve D mx (l1 ++ l2) = Ok r ->
  exists r1, resolve D mx l1 = Ok r1 /\ r1 = restrict (length l1) r.
Proof. exact resolve_prefix. Qed.
Print Assumptions C08_prefix.

(* every non-full citation is grouped only with a resource introduced by an EARLIER full citation *)
Theorem C08_backward_only : forall D mx cs r, oids_ok cs -> resolve D mx cs = Ok r ->
  forall k c, member r k c -> is_full (c_cls c) = false ->
  exists f, member r k f /\ is_full (c_cls f) = true /\ key_of f = Ok k /\ oid f < oid c.
Proof. exact resolve_backward_only. Qed.
Print Assumptions C08_backward_only.
