(* C09 -- annotation is purely additive: stripping the inserted strings
   restores the text.  Statements only.  `pieces` tag every output fragment as
   Orig (document characters) or Ins (inserted before/after strings); the
   Python output is `render`, deleting the inserted strings is `strip`. *)
From EV Require Import Base.Str Base.PyVal Model.Annotate Proofs.AnnotateProofs.
Open Scope Z_scope.

(* every plain text, every annotation list (unsorted, overlapping, touching,
   empty spans), every mode, every balance oracle, every tolerance *)
Theorem C09_additive_plain : forall bal tol text md annots,
  annots_in_range (zlen text) annots ->
  exists ps, annotate bal tol text None md annots = Ok ps /\ strip ps = text.
Proof. exact annotate_additive_plain. Qed.
Print Assumptions C09_additive_plain.

(* ... and every source text with ANY diff script that accounts for both
   texts: either diff engine and any diff it may legally produce *)
Theorem C09_additive_source : forall bal tol (plain : str) src st md annots,
  steps_ok st (zlen plain) (zlen src) -> plain <> [] ->
  annots_in_range (zlen plain) annots ->
  exists ps, annotate bal tol src (Some (mk st)) md annots = Ok ps /\ strip ps = src.
Proof. exact annotate_additive_source. Qed.
Print Assumptions C09_additive_source.

(* the public entry point: target = source if given (and non-empty), else plain *)
Theorem C09_additive : forall bal tol plain annots source st md,
  match source with Some src => steps_ok st (zlen plain) (zlen src) | None => True end ->
  plain <> [] -> annots_in_range (zlen plain) annots ->
  exists ps, annotate_citations bal tol plain annots source st md = Ok ps /\
             strip ps = match source with
                        | Some (c :: s) => c :: s
                        | _ => plain
                        end.
Proof. exact annotate_citations_additive. Qed.
Print Assumptions C09_additive.

(* 'wrap' re-inserts after/before around every tag of the span and nothing else *)
Theorem C09_wrap_strip : forall text before after, strip (wrap_html_tags text before after) = text.
Proof. exact wrap_strip. Qed.
Print Assumptions C09_wrap_strip.

(* non-vacuity: the insertion-point case that used to duplicate "<i>" *)
Example C09_nonvacuous :
  let plain := [97; 98]%N in let src := [97; 60; 105; 62; 98]%N in
  let st := [(OpEq, 1%nat); (OpIns, 3%nat); (OpEq, 1%nat)] in
  steps_ok st (zlen plain) (zlen src) /\
  annots_in_range (zlen plain) [{| a_start := 1; a_end := 1; a_before := [91]%N; a_after := [93]%N |}] /\
  annotate_citations (fun _ => true) 10 plain
    [{| a_start := 1; a_end := 1; a_before := [91]%N; a_after := [93]%N |}] (Some src) st Unchecked
  = Ok [Orig [97; 60; 105; 62]%N; Ins [91]%N; Orig []; Ins [93]%N; Orig [98]%N].
Proof. vm_compute. repeat split; try discriminate; repeat constructor; discriminate. Qed.
