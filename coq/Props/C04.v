(* C04 -- extraction, resolution and annotation never raise.  Statements only.
   Every Python operation of the modelled code that can raise (attribute access
   on None, d[k], l[i], int(s), str + None) is an explicit Err value of the
   model; "never raises" is "returns Ok". *)
From EV Require Import Base.Str Base.PyVal Model.Tokenize Model.Editions Model.Filter Model.Pipeline Model.Annotate.
From EV Require Import Proofs.PipeSpec Proofs.PipeYear Proofs.AnnotateProofs.
From EV Require Import Model.Resolve Proofs.ResolveSpec Proofs.ResolveTotal.
Open Scope Z_scope.

(* extraction: every text, every token stream whose special tokens carry the
   groups their extractor patterns guarantee, every behaviour of the regex searches *)
Theorem C04_get_citations_total :
  forall search refsearch MAXC BACK D highest this_year edition_of source_of valid_name is_space text words cits ra,
  cits_ok words cits -> toks_ok source_of words -> search_ok search ->
  exists l, get_citations search refsearch MAXC BACK D highest this_year edition_of source_of valid_name is_space
                          text words cits ra = Ok l.
Proof. exact get_citations_total. Qed.
Print Assumptions C04_get_citations_total.

(* annotation: every plain text (non-empty), annotation list in range, optional source with any
   diff script accounting for both texts, every mode and balance oracle *)
Theorem C04_annotate_total : forall bal tol plain annots source st md,
  match source with Some src => steps_ok st (zlen plain) (zlen src) | None => True end ->
  plain <> [] -> annots_in_range (zlen plain) annots ->
  exists ps, annotate_citations bal tol plain annots source st md = Ok ps /\
             strip ps = match source with Some (c :: s) => c :: s | _ => plain end.
Proof. exact annotate_citations_additive. Qed.
Print Assumptions C04_annotate_total.

(* offset translation never raises IndexError on a non-empty text *)
Theorem C04_update_total : forall st la lb right x,
  steps_ok st la lb -> 0 < la -> 0 <= x <= la -> exists y, update (mk st) right x = Ok y.
Proof. exact update_total. Qed.
Print Assumptions C04_update_total.

(* resolution: every list of citations that carry what extraction guarantees (case citations have
   a page key and a reporter; a page accepted by str.isdigit() is accepted by int()) *)
Theorem C04_resolve_total : forall D mx cs,
  oids_ok cs -> Forall (cit_wf D) cs -> exists r, resolve D mx cs = Ok r.
Proof. exact resolve_total. Qed.
Print Assumptions C04_resolve_total.

(* ---- the closed model (text and year in, citations out; Model/E2EClosed.v): extraction never raises, for EVERY
   text -- no premise at all.  The only fact about the regex searches totality needs is "the short-form antecedent
   is always captured", proved for the engine on the regenerated AST ---- *)
From EV Require Import Model.Extract Model.E2E Model.RefEngine Model.E2EClosed Proofs.ClosedTotal.

Theorem C04_closed_total : forall this_year s ra, exists l, get_citations_closed this_year s ra = Ok l.
Proof. exact closed_total. Qed.
Print Assumptions C04_closed_total.

