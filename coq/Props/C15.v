(* C15 -- extraction is a pure function of its input: every source of order- and
   history-dependence of the modelled code, quantified over.  Statements only. *)
From EV Require Import Base.Str Model.Tokenize Model.Pure Proofs.TokenizeProofs Proofs.PureProofs.
From Coq Require Import Sorting.Permutation Sorting.Sorted.

(* the Aho-Corasick selection: same result whatever order and multiplicity hits are reported in
   (any iteration order of a set, any hash seed) ... *)
Theorem C15_select_order_free : forall E (eqb : E -> E -> bool) exts unfiltered hits hits',
  (forall e, existsb (eqb e) hits = existsb (eqb e) hits') ->
  select E eqb exts unfiltered hits = select E eqb exts unfiltered hits'.
Proof. exact select_order_free. Qed.
Print Assumptions C15_select_order_free.

(* ... and the selected extractors run in list order *)
Theorem C15_select_keeps_list_order : forall E (eqb : E -> E -> bool) exts unfiltered hits e1 e2 l1 l2 l3,
  select E eqb exts unfiltered hits = l1 ++ e1 :: l2 ++ e2 :: l3 ->
  exists m1 m2 m3, exts = m1 ++ e1 :: m2 ++ e2 :: m3.
Proof. exact select_sublist_order. Qed.
Print Assumptions C15_select_keeps_list_order.

(* the token stream depends on the order in which candidates are generated only through the relative
   order of candidates covering the same characters *)
Theorem C15_tokenize_order_free : forall text nominative c1 c2,
  (forall k, with_key k c1 = with_key k c2) -> tokenize text nominative c1 = tokenize text nominative c2.
Proof. exact tokenize_order_free. Qed.
Print Assumptions C15_tokenize_order_free.

(* any permutation of the candidates, when no two of them cover the same characters *)
Theorem C15_tokenize_perm_no_ties : forall text nominative c1 c2,
  Permutation c1 c2 -> NoDup (map tkey c1) -> tokenize text nominative c1 = tokenize text nominative c2.
Proof. exact tokenize_perm_no_ties. Qed.
Print Assumptions C15_tokenize_perm_no_ties.

(* memoisation cells (compiled patterns, the Hyperscan database) are transparent: the value obtained
   is the value of the pure computation, whatever was processed before ... *)
Theorem C15_memo_transparent : forall K V keqb (f : K -> V) m k,
  memo_ok K V keqb f m -> fst (get K V keqb f m k) = f k.
Proof. exact memo_get_value. Qed.
Print Assumptions C15_memo_transparent.

(* ... and the cell stays consistent, for every call history *)
Theorem C15_memo_invariant : forall K V keqb (f : K -> V) m k,
  keqb_sound keqb -> memo_ok K V keqb f m ->
  fst (get K V keqb f m k) = f k /\ memo_ok K V keqb f (snd (get K V keqb f m k)).
Proof. exact memo_get. Qed.
Print Assumptions C15_memo_invariant.

(* ... and under EVERY interleaving of any number of threads sharing the cells *)
Theorem C15_memo_interleavings : forall K V keqb (f : K -> V) m ts schedule,
  (forall a b, keqb a b = true -> a = b) ->
  memo_ok K V keqb f m -> Forall (thread_ok K V f) ts ->
  memo_ok K V keqb f (fst (run_schedule K V keqb f (m, ts) schedule)) /\
  Forall (thread_ok K V f) (snd (run_schedule K V keqb f (m, ts) schedule)).
Proof. exact memo_interleavings. Qed.
Print Assumptions C15_memo_interleavings.
