(* C20 -- cleaning is composable, idempotent and preserves content.
   Only statements; every proof is `exact <lemma>`. *)
From EV Require Import Base.Str Regex.Syntax Model.Clean Model.CleanRe.
From EV Require Import Proofs.CleanProofs Proofs.CleanReProofs Gen.Unicode Gen.Cleaners.

(* applying a list of steps = applying them one after another *)
Theorem C20_compose : forall lookup t s1 s2,
  clean_text lookup t (s1 ++ s2) =
  cbind (clean_text lookup t s1) (fun t' => clean_text lookup t' s2).
Proof. exact clean_text_app. Qed.
Print Assumptions C20_compose.

Theorem C20_single_step : forall lookup t st,
  clean_text lookup t [st] = apply_step lookup st t.
Proof. exact clean_text_single. Qed.
Print Assumptions C20_single_step.

(* an unknown step name raises ValueError *)
Theorem C20_unknown_step : forall lookup t n rest,
  lookup n = None -> clean_text lookup t (SName n :: rest) = CValueError.
Proof. exact clean_text_unknown. Qed.
Print Assumptions C20_unknown_step.

(* each whitespace/underscore cleaner, as defined by the pattern and
   replacement the live function passes to re.sub: idempotent, keeps all
   other characters in order, leaves no run -- for all strings *)
Theorem C20_inline_whitespace :
  exists f, cleaner_of U pat_inline_whitespace repl_inline_whitespace = Some f /\ laws_plus f.
Proof. exact inline_whitespace_laws. Qed.
Print Assumptions C20_inline_whitespace.

Theorem C20_all_whitespace :
  exists f, cleaner_of U pat_all_whitespace repl_all_whitespace = Some f /\ laws_plus f.
Proof. exact all_whitespace_laws. Qed.
Print Assumptions C20_all_whitespace.

Theorem C20_underscores :
  exists f, cleaner_of U pat_underscores repl_underscores = Some f /\ laws_two f.
Proof. exact underscores_laws. Qed.
Print Assumptions C20_underscores.

(* html cleaner on the element-tree model: exactly the non-blank text nodes whose parent is not
   style/link/head/script and that have no <head> ancestor (as repaired: the <title> is not visible
   text), in document order, and no tag characters *)
Theorem C20_html_visible : forall ws hidden is_head n,
  visible ws hidden is_head n = map snd (filter (keep ws hidden is_head) (node_texts n)).
Proof. exact visible_spec. Qed.
Print Assumptions C20_html_visible.

(* nothing nested at any depth inside a head element is returned *)
Theorem C20_html_nothing_from_head : forall ws hidden is_head n pt,
  In pt (node_texts n) -> existsb is_head (fst pt) = true -> (forall t, is_head t = true -> hidden t = true) ->
  keep ws hidden is_head pt = false.
Proof. exact visible_not_under_head. Qed.
Print Assumptions C20_html_nothing_from_head.

Theorem C20_html_no_tags : forall ws hidden is_head tagchar n,
  tagchar 32%N = false ->
  Forall (fun pt => forallb (fun c => negb (tagchar c)) (snd pt) = true) (node_texts n) ->
  forallb (fun c => negb (tagchar c)) (html_clean ws hidden is_head n) = true.
Proof. exact html_no_tags. Qed.
Print Assumptions C20_html_no_tags.

(* non-vacuity: a concrete string on which every cleaner does something *)
Example C20_nonvacuous :
  match cleaner_of U pat_inline_whitespace repl_inline_whitespace,
        cleaner_of U pat_underscores repl_underscores with
  | Some f, Some g =>
      f [97; 32; 9; 32; 98]%N = [97; 32; 98]%N /\
      g [97; 95; 98; 95; 95; 95; 99]%N = [97; 95; 98; 99]%N
  | _, _ => False
  end.
Proof. vm_compute. split; reflexivity. Qed.
