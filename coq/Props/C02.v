(* C02 -- reported offsets index the text they claim to index.  Statements only.
   `search` is ANY behaviour of the regular-expression searches that respects
   the contract of a match object (Proofs/PipeSpec.v: search_ok); the token
   stream is any stream with the partition property that C12 proves. *)
From EV Require Import Base.Str Base.PyVal Model.Tokenize Model.Editions Model.Filter Model.Pipeline.
From EV Require Import Proofs.TokenizeProofs Proofs.PipeSpec Proofs.PipeWindows Proofs.PipeOffsets Proofs.PipeCompose.
From EV Require Import Regex.Syntax Regex.Decl Regex.Match Regex.MatchSound Model.SearchEngine Proofs.SearchEngineProofs.
Open Scope Z_scope.

(* every returned citation: 0 <= full start <= span start <= span end <= full end <= len(text);
   text[span] starts with the matched text; the pin-cite span contains the span and, for
   case/short/supra/id citations, the captured pin cite *)
Theorem C02_offsets :
  forall search refsearch MAXC BACK D highest this_year edition_of source_of valid_name is_space
         text words cits ra l,
  text <> s_eyecite ->
  stream_ok text words -> cits_ok words cits -> toks_ok source_of words ->
  search_ok search -> refs_ok refsearch ->
  forall post_short_total : (forall w, search PPostShort w <> None),
  get_citations search refsearch MAXC BACK D highest this_year edition_of source_of valid_name is_space
                text words cits ra = Ok l ->
  Forall (offsets_ok text) l.
Proof. exact get_citations_offsets. Qed.
Print Assumptions C02_offsets.

(* the stream hypotheses are what C12 establishes for every well-formed candidate list *)
Theorem C02_tokenizer_feeds_pipeline : forall text nominative cands,
  Forall (cand_wf text) cands ->
  stream_ok text (fst (tokenize text nominative cands)) /\
  cits_ok (fst (tokenize text nominative cands)) (snd (tokenize text nominative cands)).
Proof. exact tokenize_stream_ok. Qed.
Print Assumptions C02_tokenizer_feeds_pipeline.

(* the premise "POST_SHORT_CITATION_REGEX always matches" cannot be dropped: without it the
   model stores span end 0 for a short form (span_end if span_end else 0) *)
Theorem C02_post_short_premise_needed :
  exists search refsearch MAXC BACK D highest this_year edition_of source_of valid_name is_space
         text words cits ra l,
    text <> s_eyecite /\ stream_ok text words /\ cits_ok words cits /\ toks_ok source_of words /\
    search_ok search /\ refs_ok refsearch /\
    get_citations search refsearch MAXC BACK D highest this_year edition_of source_of valid_name is_space
                  text words cits ra = Ok l /\
    ~ Forall (offsets_ok text) l.
Proof. exact post_short_total_needed. Qed.
Print Assumptions C02_post_short_premise_needed.

(* scan windows are slices of the text: forward windows start where the token ends,
   backward windows end where the token starts *)
Theorem C02_window_fwd : forall MAXC text words start so, stream_ok text words ->
  exists n, window_fwd MAXC words start [] so = slice text (pos words start) (pos words start + n) /\
            (pos words start + n <= length text)%nat.
Proof. exact window_fwd_prefix. Qed.
Print Assumptions C02_window_fwd.

Theorem C02_window_bwd : forall MAXC text words index so, stream_ok text words ->
  (index <= length words)%nat ->
  exists n, (n <= pos words index)%nat /\
            window_bwd MAXC words index so = slice text (pos words index - n) (pos words index).
Proof. exact window_bwd_suffix. Qed.
Print Assumptions C02_window_bwd.

(* ---- the metadata searches computed by the engine model (Regex/Match.v on the ASTs regenerated into
   Gen/MetaRegex.v; its agreement with the `regex` module is checked on every recorded call) satisfy
   BY THEOREM the span part of the contract that C02_offsets assumes of the oracle ---- *)
Theorem C02_engine_match_objects_ok : forall U table p w m,
  engine_search U table p w = Some m -> mres_ok w m.
Proof. exact engine_mres_ok. Qed.
Print Assumptions C02_engine_match_objects_ok.

Theorem C02_engine_forward_start : forall U table p w m r names,
  table p = (Cat Bol r, names) -> p <> PYearMatch -> engine_search U table p w = Some m -> m_start m = 0%nat.
Proof. exact engine_fwd_start. Qed.
Print Assumptions C02_engine_forward_start.

Theorem C02_engine_backward_end : forall U table p w m r names,
  table p = (Cat r Eol, names) -> p <> PYearMatch -> engine_search U table p w = Some m ->
  m_end m = length w \/ (S (m_end m) = length w /\ nth_error w (m_end m) = Some 10%N).
Proof. exact engine_bwd_end. Qed.
Print Assumptions C02_engine_backward_end.

(* the engine is sound for the declarative semantics: what it reports is a match, at the leftmost start *)
Theorem C02_engine_sound : forall U ci s r i j c,
  search U ci s r = Some (i, j, c) ->
  M U ci s r i j /\ (i <= j)%nat /\ (j <= length s)%nat /\
  (forall n a b, In (n, (a, b)) c -> (i <= a)%nat /\ (a <= b)%nat /\ (b <= j)%nat) /\
  (forall i', (i' < i)%nat -> match_at U ci s r i' = None).
Proof. exact search_sound. Qed.
Print Assumptions C02_engine_sound.
(* ---- closed model (Model/E2EClosed.v): get_citations as a function of the text and the current year,
   every candidate, token, metadata search and reference match computed inside the model from the tables
   regenerated from /repo.  The hypotheses about candidates, token stream, reference matches (and, by the
   kernel's run over the live extractor table, about stop-word groups, edition sources and non-empty
   tokens) are DISCHARGED; what is left are facts about the nine metadata regexes and the short-form
   extractor regexes on the text at hand, which the harness checks on every recorded call / token ---- *)
From EV Require Import Model.Extract Model.E2E Model.RefEngine Model.E2EClosed Proofs.ClosedProofs Proofs.ClosedCorollaries.

(* THE CLOSED THEOREM.  No premise about candidates, tokens, regex matches or reference matches is left: every one
   of them is proved for the engine on the regenerated tables (Proofs/ExtractProofs, ClosedProofs, SearchDischarge,
   SearchDischarge2, ShortPage, SearchGuarded: soundness of the engine w.r.t. declarative semantics with and without
   captures, and verified static analyses run by the kernel).  The two premises are conditions on the TEXT:
   - s <> "eyecite" (the easter egg: known finding);
   - ws_clean: the text contains no whitespace character other than U+0020 -- what eyecite's recommended
     all_whitespace cleaning produces.  Needed because `$` also matches before a final newline and because
     DEFENDANT_YEAR accepts an empty defendant after a leading whitespace: for unrestricted windows the oracle
     contracts search_ok / defyear_ok are FALSE of the engine (C02_contract_refuted_on_all_windows), so the earlier,
     unguarded closed statements were vacuous; the contracts are now guarded by ws_clean windows and hold outright;
   (A third premise, odd_short_rows_silent, is gone: for the 11 reporters whose short-form pattern puts text AFTER
   the page group inside the token ("19 CO at 12M", "... at 5 (6th Cir.)") the assumption "the token ends with its
   page" is false (C02_short_page_refuted) and the implementation computed a pin cite that is not in the text; the
   repaired _extract_shortform_citation checks the suffix itself, the model follows it, and tok_ok no longer asks
   for it: C02_closed_short_repaired.) *)
From EV Require Import Proofs.SearchDischarge Proofs.ShortPage Proofs.SearchDischarge2 Proofs.Vacuity Proofs.SearchGuarded Proofs.ClosedFinal.

Theorem C02_closed_offsets : forall this_year s ra l,
  s <> s_eyecite -> ws_clean is_space_gen s ->
  get_citations_closed this_year s ra = Ok l ->
  Forall (offsets_ok s) l.
Proof. exact closed_offsets_final. Qed.
Print Assumptions C02_closed_offsets.

(* the premises are satisfiable and the conclusion is about a non-trivial run: "Foo v. Bar, 1 U.S. 1 (1999). Id. at 5."
   meets both and the closed model returns two citations on it *)
Theorem C02_closed_nonvacuous :
  s_example <> s_eyecite /\ ws_clean is_space_gen s_example /\
  exists l, get_citations_closed 2026 s_example false = Ok l /\ length l = 2%nat.
Proof. exact final_premises_hold. Qed.
Print Assumptions C02_closed_nonvacuous.

(* the repaired short form: on "Foo, 19 CO at 12M, 15 (holding x)" the closed model returns one short citation whose
   pin cite is "15" (before the repair: "12, 15", which is not in the text) *)
Theorem C02_closed_short_repaired :
  s_example_short <> s_eyecite /\ ws_clean is_space_gen s_example_short /\
  exists c, get_citations_closed 2026 s_example_short false = Ok [c] /\
            p_cls c = CShort /\ p_pin c = Some [49;53]%N.
Proof. exact final_example_short. Qed.
Print Assumptions C02_closed_short_repaired.

(* the unguarded oracle contract is false of the real engine: witness windows "Foo, \n" and " (1999)" *)
Theorem C02_contract_refuted_on_all_windows :
  ~ search_ok (engine_search UM meta_table) /\ ~ Proofs.PipeMeta.defyear_ok (engine_search UM meta_table).
Proof. exact (conj search_ok_refuted defyear_refuted). Qed.
Print Assumptions C02_contract_refuted_on_all_windows.

(* ... and the guarded one holds outright *)
Theorem C02_engine_contract_guarded : search_ok_g is_space_gen (engine_search UM meta_table).
Proof. exact E_search_ok_g. Qed.
Print Assumptions C02_engine_contract_guarded.

(* the general statement the closed theorem instantiates: any oracle meeting the guarded contract, any stream *)
Theorem C02_offsets_guarded :
  forall search refsearch MAXC BACK D highest this_year edition_of source_of valid_name is_space
         text words cits ra l,
  text <> s_eyecite -> ws_clean is_space text ->
  stream_ok text words -> cits_ok words cits -> toks_ok source_of words ->
  search_ok_g is_space search -> refs_ok refsearch ->
  (forall w, search PPostShort w <> None) ->
  get_citations search refsearch MAXC BACK D highest this_year edition_of source_of valid_name is_space
                text words cits ra = Ok l ->
  Forall (offsets_ok text) l.
Proof. exact get_citations_offsets_g. Qed.
Print Assumptions C02_offsets_guarded.

(* the premise "a short-form token ends with its page group" fails on the text "19 CO at 12M" *)
Theorem C02_short_page_refuted : ~ short_page_ok s_19_CO_at_12M.
Proof. exact short_page_counterexample. Qed.
Print Assumptions C02_short_page_refuted.

Theorem C02_short_page_elsewhere : forall s, odd_short_rows_silent s -> short_page_ok s.
Proof. exact short_page_ok_of_silent. Qed.
Print Assumptions C02_short_page_elsewhere.

Theorem C02_engine_parenthetical_last : forall w m, engine_search UM meta_table PPostFull w = Some m ->
  forall a b, gspan g_parenthetical (m_groups m) = Some (a, b) ->
    (b < m_end m)%nat /\
    forall k x y, In (k, Some (x, y)) (m_groups m) -> str_eqb k g_parenthetical = false -> (y <= a)%nat.
Proof. exact E_parenthetical_last. Qed.
Print Assumptions C02_engine_parenthetical_last.

Theorem C02_engine_pin_at_start : forall p w m, fwd_pat p = true ->
  engine_search UM meta_table p w = Some m ->
  forall a b, gspan g_pin_cite (m_groups m) = Some (a, b) -> a = 0%nat.
Proof. exact E_pin_at_start. Qed.
Print Assumptions C02_engine_pin_at_start.

Theorem C02_engine_short_antecedent : forall w m, engine_search UM meta_table PShortAnte w = Some m ->
  exists a b, gspan g_antecedent (m_groups m) = Some (a, b).
Proof. exact E_short_ante. Qed.
Print Assumptions C02_engine_short_antecedent.

Theorem C02_engine_post_short_total : forall w, engine_search UM meta_table PPostShort w <> None.
Proof. exact E_post_short_total. Qed.
Print Assumptions C02_engine_post_short_total.

(* the reference-pattern matches computed by the engine satisfy the contract assumed of the oracle *)
Theorem C02_refs_engine_ok : refs_ok refs_engine.
Proof. exact refs_engine_ok. Qed.
Print Assumptions C02_refs_engine_ok.

(* the computed stream satisfies what C02_offsets assumes of the stream *)
Theorem C02_closed_stream : forall s,
  stream_ok s (fst (tokenize_text s)) /\ cits_ok (fst (tokenize_text s)) (snd (tokenize_text s)).
Proof. exact tokenize_text_stream_ok. Qed.
Print Assumptions C02_closed_stream.
