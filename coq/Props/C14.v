(* C14 -- the Hyperscan tokenizer: what can be a theorem.  Statements only.
   `hits` is WHATEVER the engine reports (extractor index, byte start, byte end). *)
From EV Require Import Base.Str Base.PyVal Model.Hyperscan Proofs.HyperscanProofs.
Local Open Scope nat_scope.

(* UTF-8: a lead byte announcing the length, then continuation bytes *)
Theorem C14_enc_shape : forall c, valid_cp c ->
  exists b rest, enc c = b :: rest /\ seq_len b = Some (S (length rest)) /\ forallb is_cont rest = true.
Proof. exact enc_shape. Qed.
Print Assumptions C14_enc_shape.

(* a slice between two character boundaries decodes; a slice ending inside a character does not *)
Theorem C14_decode_boundary : forall text i j, valid_text text -> i <= j <= length text ->
  decode_len (slice (utf8 text) (bpos text i) (bpos text j)) = Some (j - i).
Proof. exact decode_boundary. Qed.
Print Assumptions C14_decode_boundary.

Theorem C14_decode_inside : forall text i b, valid_text text -> i <= length text ->
  bpos text i <= b <= length (utf8 text) -> (forall j, j <= length text -> bpos text j <> b) ->
  decode_len (slice (utf8 text) (bpos text i) b) = None.
Proof. exact decode_inside. Qed.
Print Assumptions C14_decode_inside.

(* the table maps byte offset b to str offset i exactly when b is a requested
   offset and the byte position of character boundary i *)
Theorem C14_offset_table : forall text hits b i, valid_text text ->
  Forall (fun o => o <= length (utf8 text)) (hit_offsets hits) ->
  (tlookup b (offset_table text hits) = Some i <->
   In b (hit_offsets hits) /\ i <= length text /\ bpos text i = b).
Proof. exact offset_table_spec. Qed.
Print Assumptions C14_offset_table.

(* a hit is kept iff both its ends are character boundaries *)
Theorem C14_translate : forall text hits idx s e, valid_text text ->
  Forall (fun o => o <= length (utf8 text)) (hit_offsets hits) ->
  (In (idx, (s, e)) (translate text hits) <->
   s <= length text /\ e <= length text /\ In (idx, (bpos text s, bpos text e)) hits).
Proof. exact translate_spec. Qed.
Print Assumptions C14_translate.

(* the decoded byte slice is the str slice, regardless of the characters around it *)
Theorem C14_slice_utf8 : forall text s e, s <= e <= length text ->
  slice (utf8 text) (bpos text s) (bpos text e) = utf8 (slice text s e).
Proof. exact slice_utf8. Qed.
Print Assumptions C14_slice_utf8.

(* every reported token indexes its own text ... *)
Theorem C14_tokens_wf : forall rematch text hits t, valid_text text ->
  Forall (fun o => o <= length (utf8 text)) (hit_offsets hits) ->
  (forall idx s a b, rematch idx text s = Some (a, b) -> a <= b <= length text) ->
  In t (extract rematch text hits) ->
  h_start t <= h_end t <= length text /\ h_data t = slice text (h_start t) (h_end t).
Proof. exact extract_wf. Qed.
Print Assumptions C14_tokens_wf.

(* ... and is a genuine in-place match (pattern.match(text, s), as repaired: real context on both sides)
   of its extractor's pattern at the start character offset of a reported hit *)
Theorem C14_tokens_genuine : forall rematch text hits t, valid_text text ->
  Forall (fun o => o <= length (utf8 text)) (hit_offsets hits) ->
  In t (extract rematch text hits) ->
  exists s e, In (h_idx t, (bpos text s, bpos text e)) hits /\ s <= length text /\ e <= length text /\
    rematch (h_idx t) text s = Some (h_start t, h_end t).
Proof. exact extract_genuine. Qed.
Print Assumptions C14_tokens_genuine.

(* cache: whatever the file contains, a database is obtained; it is the freshly
   compiled one, or one that the loader accepted *)
Theorem C14_cache : forall DB (loadb : list N -> load_result DB) compiled dumpb c,
  fst (get_db DB loadb compiled dumpb c) = compiled \/
  exists bs, c = CacheFile bs /\ loadb bs = LoadOk (fst (get_db DB loadb compiled dumpb c)).
Proof. exact get_db_spec. Qed.
Print Assumptions C14_cache.
