(* C19 -- markup mode only adds well-founded reference citations.  Statements only. *)
From EV Require Import Base.Str Base.PyVal Model.Tokenize Model.Editions Model.Filter Model.Pipeline Model.Annotate Model.Markup.
From EV Require Import Proofs.PipeSpec Proofs.PipeYear Proofs.PipeRefs Proofs.FilterProofs Proofs.FilterMerge Proofs.MarkupProofs.
Open Scope Z_scope.

(* (a) the non-reference citations built by extraction do not depend on where references are
   looked for: two runs that differ only in the reference oracle accumulate the same
   non-reference citations, field by field, in the same order *)
Theorem C19_nonrefs_independent_of_references :
  forall search refsearch1 refsearch2 MAXC BACK D highest this_year edition_of source_of valid_name is_space
         text words cits r1,
  cite_run search refsearch1 MAXC BACK D highest this_year edition_of source_of valid_name is_space text words [] cits = Ok r1 ->
  exists r2,
    cite_run search refsearch2 MAXC BACK D highest this_year edition_of source_of valid_name is_space text words [] cits = Ok r2 /\
    nonref_pcits r1 = nonref_pcits r2.
Proof. exact cite_run_nonrefs_independent_nil. Qed.
Print Assumptions C19_nonrefs_independent_of_references.

(* (b) inserting reference citations anywhere in a citation list leaves the non-reference
   citations returned by the filter unchanged (same records, same order), provided no reference
   has the span of a non-reference *)
Theorem C19_filter_ignores_inserted_references : forall l1 l2,
  ref_insertion l1 l2 ->
  (forall r c, In r l2 -> f_ref r = true -> In c l2 -> f_ref c = false ->
               zspan_eqb (f_span r) (f_span c) = false) ->
  nonrefs (filter_citations l2) = nonrefs (filter_citations l1).
Proof. exact filter_nonrefs_insensitive. Qed.
Print Assumptions C19_filter_ignores_inserted_references.

(* (c) the offsets of a markup-derived reference are valid in the cleaned text, for ANY diff
   script between the markup (length lm) and the cleaned text (length lp) *)
Theorem C19_markup_reference_offsets : forall st lm lp sm ms me gs ge,
  steps_ok st lm lp -> 0 < lm ->
  0 <= sm -> 0 <= ms -> ms <= gs -> gs <= ge -> ge <= me -> sm + me <= lm ->
  exists r, markup_ref (mk st) sm ms me gs ge = Ok r /\
    0 <= r_full_start r /\ r_full_start r <= r_start r /\ r_start r <= r_end r /\
    r_end r <= r_full_end r /\ r_full_end r <= lp.
Proof. exact markup_ref_offsets. Qed.
Print Assumptions C19_markup_reference_offsets.

Theorem C19_start_in_markup : forall st lp lm x,
  steps_ok st lp lm -> 0 < lp -> 0 <= x <= lp ->
  exists y, start_in_markup (mk st) x = Ok y /\ 0 <= y <= lm.
Proof. exact start_in_markup_range. Qed.
Print Assumptions C19_start_in_markup.

(* every citation produced by the reference extractor is a reference citation *)
Theorem C19_references_are_references :
  forall refsearch valid_name text c r, In r (references refsearch valid_name text c) -> is_ref r = true.
Proof. exact references_are_refs. Qed.
Print Assumptions C19_references_are_references.

(* ---- plain-text mode, closed model: every returned reference citation derives from a full case citation that
   is itself returned and ends before it, and the text at its span contains a plaintiff or defendant of that
   citation that passes the name-validity rule (the rule and the reference pattern are computed inside the model:
   Model/RefEngine.v, pattern captured from the code by the translator) ---- *)
From EV Require Import Base.PyVal Model.Pipeline Model.Extract Model.E2E Model.RefEngine Model.E2EClosed Proofs.PipeSpec Proofs.ClosedRefs.

Theorem C19_closed_refs : forall this_year s l c,
  s <> s_eyecite -> ws_clean is_space_gen s ->
  get_citations_closed this_year s false = Ok l -> In c l -> p_cls c = CRef ->
  exists f name,
    In f l /\ p_cls f = CFullCase /\ (snd (span_of f) <= fst (span_of c))%Z /\
    (p_plaintiff f = Some name \/ p_defendant f = Some name) /\ is_valid_name name = true /\
    infix name (pyslice s (fst (span_of c)) (snd (span_of c))).
Proof. exact closed_refs_ok. Qed.
Print Assumptions C19_closed_refs.

Example C19_closed_refs_nonvacuous :
  exists l, get_citations_closed 2026 s_example_ref false = Ok l /\
            map (fun c => (p_cls c, span_of c)) l = [(CFullCase, (14, 22)%Z); (CRef, (34, 45)%Z)].
Proof. exact closed_refs_nonvacuous. Qed.

