(* C05 -- unambiguous references are grouped with the case they refer to.  Statements only.
   Scenario documents (Proofs/ScenarioSpec.v): `render` = the citation list extraction produces
   for the written events, `intended` = the grouping the author meant. *)
From EV Require Import Base.Str Base.PyVal Model.Tokenize Model.Resolve Proofs.ResolveSpec Proofs.ResolveProofs
                       Proofs.ResolveTotal Proofs.ScenarioSpec Proofs.ScenarioProofs.
Local Open Scope nat_scope.

(* every scenario: any number of cases, any interleaving of events, any pin cites (id. pins below 10^40) *)
Theorem C05_scenarios : forall cases evs mx,
  scenario_ok cases evs mx -> pins_small evs ->
  exists r, resolve DASCII mx (render cases evs) = Ok r /\
    (* every reference with a defined intended target is grouped with that case *)
    (forall n i, nth_error (intended cases evs mx) n = Some (Some i) ->
                 member r (case_key (the_case cases i)) (nth_cit cases evs n)) /\
    (* impossible id. pin cites, id. after an unresolved citation, ambiguous short forms and
       section-sign citations are left out rather than attached elsewhere *)
    (forall n, nth_error (intended cases evs mx) n = Some None ->
               forall k, ~ member r k (nth_cit cases evs n)) /\
    (* exactly one resource per distinct case cited in full *)
    (forall k, In k (map fst r) <->
               exists i, i < length cases /\ cited_before evs (length evs) i = true /\
                         k = case_key (the_case cases i)).
Proof. exact scenario_resolution. Qed.
Print Assumptions C05_scenarios.

(* non-vacuity: two cases with the same reporter and volume, an ambiguous and an unambiguous short
   form, a supra, and id. citations with a plausible and an impossible pin cite *)
Example C05_nonvacuous :
  let cases := [ {| cd_vol := [49]%N; cd_rep := [85]%N; cd_page := 10%N; cd_pl := [65;108]%N; cd_df := [66;101]%N |};
                 {| cd_vol := [49]%N; cd_rep := [85]%N; cd_page := 300%N; cd_pl := [67;114]%N; cd_df := [68;117]%N |} ] in
  let evs := [EFull 0; EFull 1; EShort 0 false 12%N; EShort 1 true 305%N; ESupra 0; EId (Some 11%N); EId (Some 5000%N)] in
  intended cases evs 150%N = [Some 0; Some 1; None; Some 1; Some 0; Some 0; None] /\
  match resolve DASCII 150%N (render cases evs) with
  | Ok r => map (fun g => map oid (snd g)) r = [[0; 4; 5]; [1; 3]]
  | Err _ => False
  end.
Proof. vm_compute. split; reflexivity. Qed.
