(* C01 -- standard citation forms are recognised: what can be a theorem.  Statements only.
   in_table x: x is a row (index, pattern, IGNORECASE, registered strings) of the table regenerated
   from the live EXTRACTORS list; shape recognises the "$full_cite" template
   BND((volume) (reporter: ALTS),? [at ](page))BND; M is the declarative match relation. *)
From EV Require Import Base.Str Regex.Syntax Regex.Decl Regex.Shape Regex.ShapeSound Regex.ShapeSound2 Regex.C13Check.
From EV Require Import Gen.Unicode Gen.ExtractorsAll Gen.ShapesAll Proofs.C13Proofs Proofs.C01Proofs.

(* for every extractor of the template family in the live list, every reporter string registered
   for it, every volume, page, optional comma, and every neutral context: the written forms
   "vol REPORTER page" (short = false) and "vol REPORTER at page" (short = true) are matched, the
   body of group 1 spanning exactly the written citation *)
Theorem C01_minimal_forms : forall x alts page_rest short R pre v comma p post,
  in_table x -> row_ci x = false ->
  shape (row_re x) = Some (alts, page_rest, short) -> In R (row_lits x) ->
  volume_ok U v -> page_ok U p -> (comma = [] \/ comma = [44%N]) -> before_ok pre -> after_ok post ->
  let core := written v R comma short p in
  let text := pre ++ core ++ post in
  M U false text (body_tpl alts page_rest short) (length pre) (length pre + length core) /\
  exists a b, M U false text (row_re x) a b /\
              (a <= length pre)%nat /\ (length pre + length core <= b)%nat /\ (b <= a + length core + 2)%nat.
Proof. exact table_minimal_forms. Qed.
Print Assumptions C01_minimal_forms.

(* the recogniser is sound: a recognised pattern IS the template *)
Theorem C01_shape_sound : forall r alts page_rest short,
  shape r = Some (alts, page_rest, short) -> r = full_cite_tpl alts page_rest short.
Proof. exact shape_sound. Qed.
Print Assumptions C01_shape_sound.

(* the fragment matcher used to check reporter strings against reporter groups is sound *)
Theorem C01_accepts_sound : forall U r w, accepts U r w = true ->
  forall s i, (i + length w <= length s)%nat -> slice s i (i + length w) = w ->
              M U false s r i (i + length w).
Proof. exact accepts_sound. Qed.
Print Assumptions C01_accepts_sound.

(* every registered string of every recognised case-sensitive extractor is accepted by its reporter group *)
Theorem C01_table_strings_accepted : forall x,
  in_table x -> row_ci x = false -> row_shape_ok U (row_re x) (row_lits x) = true.
Proof. exact table_row_shape_ok. Qed.
Print Assumptions C01_table_strings_accepted.

(* non-vacuity: the family is large (number of recognised extractors in the live list) *)
Example C01_nonvacuous : (4000 <=? recognised_count)%nat = true.
Proof. vm_compute. reflexivity. Qed.
