(* C17 -- extracted metadata is text taken from the citation's own extent.
   Statements only.  meta_ok text l c: every textual metadata value of c (pin cite,
   year, parties, antecedent, extra, publisher, month, day, supra volume, and the
   parenthetical of a full case citation) is an infix of text[full span of c], or --
   for a full case citation -- of text[full span of d] for a returned full case
   citation d with the same, defined, full-span start (parallel citations). *)
From Coq Require Import Sorting.Sorted.
From EV Require Import Base.Str Base.PyVal Model.Tokenize Model.Editions Model.Filter Model.Pipeline.
From EV Require Import Proofs.TokenizeProofs Proofs.PipeSpec Proofs.PipeWindows Proofs.PipeOffsets Proofs.PipeMeta Proofs.PipeCompose.
Open Scope Z_scope.

(* default extraction: for every text, token stream (C12), and behaviour of the regex
   searches respecting the match-object contract *)
Theorem C17_metadata_inside :
  forall search refsearch MAXC BACK D highest this_year edition_of source_of valid_name is_space
         text words cits l,
  text <> s_eyecite ->
  stream_ok text words -> cits_ok words cits -> toks_ok source_of words ->
  search_ok search -> refs_ok refsearch ->
  defyear_ok search -> cits_sorted cits -> cits_nonempty cits ->
  get_citations search refsearch MAXC BACK D highest this_year edition_of source_of valid_name is_space
                text words cits false = Ok l ->
  Forall (meta_ok text l) l.
Proof. exact get_citations_metadata_sorted. Qed.
Print Assumptions C17_metadata_inside.

(* with remove_ambiguous the donor of a parallel citation may have been removed: the extent is
   then that of a citation of the default run *)
Theorem C17_metadata_inside_any_option :
  forall search refsearch MAXC BACK D highest this_year edition_of source_of valid_name is_space
         text words cits ra l,
  text <> s_eyecite ->
  stream_ok text words -> cits_ok words cits -> toks_ok source_of words ->
  search_ok search -> refs_ok refsearch ->
  defyear_ok search -> cits_sorted cits -> cits_nonempty cits ->
  get_citations search refsearch MAXC BACK D highest this_year edition_of source_of valid_name is_space
                text words cits ra = Ok l ->
  exists l0,
    get_citations search refsearch MAXC BACK D highest this_year edition_of source_of valid_name is_space
                  text words cits false = Ok l0 /\
    (forall c, In c l -> In c l0) /\ Forall (meta_ok text l0) l.
Proof. exact get_citations_metadata_ra. Qed.
Print Assumptions C17_metadata_inside_any_option.

(* the index list produced by the tokenizer model is strictly increasing (cits_sorted) *)
Theorem C17_tokenizer_cits_sorted : forall text nominative cands,
  Forall (cand_wf text) cands ->
  StronglySorted (fun a b => (fst a < fst b)%nat) (snd (tokenize text nominative cands)).
Proof. exact tokenize_cits_sorted. Qed.
Print Assumptions C17_tokenizer_cits_sorted.
(* ---- closed model (Model/E2EClosed.v): get_citations as a function of the text and the current year,
   every candidate, token, metadata search and reference match computed inside the model from the tables
   regenerated from /repo.  The hypotheses about candidates, token stream, reference matches (and, by the
   kernel's run over the live extractor table, about stop-word groups, edition sources and non-empty
   tokens) are DISCHARGED; what is left are facts about the nine metadata regexes and the short-form
   extractor regexes on the text at hand, which the harness checks on every recorded call / token ---- *)
From EV Require Import Model.SearchEngine Model.Extract Model.E2E Model.RefEngine Model.E2EClosed Proofs.ClosedProofs Proofs.ClosedCorollaries.

From EV Require Import Proofs.ShortPage Proofs.SearchGuarded Proofs.ClosedFinal.

(* THE CLOSED THEOREM: premises are conditions on the text only (see Props/C02.v for their meaning); the guarded
   DEFENDANT_YEAR contract is proved for the engine (C17_engine_defyear_guarded) *)
Theorem C17_closed_metadata : forall this_year s l,
  s <> s_eyecite -> ws_clean is_space_gen s ->
  get_citations_closed this_year s false = Ok l ->
  Forall (meta_ok s l) l.
Proof. exact closed_metadata_final. Qed.
Print Assumptions C17_closed_metadata.

Theorem C17_closed_metadata_any_option : forall this_year s ra l,
  s <> s_eyecite -> ws_clean is_space_gen s ->
  get_citations_closed this_year s ra = Ok l ->
  exists l0, get_citations_closed this_year s false = Ok l0 /\
             (forall c, In c l -> In c l0) /\ Forall (meta_ok s l0) l.
Proof. exact closed_metadata_ra_final. Qed.
Print Assumptions C17_closed_metadata_any_option.

Theorem C17_engine_defyear_guarded : defyear_ok_g is_space_gen (engine_search UM meta_table).
Proof. exact E_defyear_ok_g. Qed.
Print Assumptions C17_engine_defyear_guarded.

(* every special token of the computed stream is non-empty (group 1 of every live extractor pattern has
   a positive minimum length: kernel-run analysis + "a capture is a match of its group's body") *)
Theorem C17_closed_tokens_nonempty : forall s, cits_nonempty (snd (tokenize_text s)).
Proof. exact tokenize_text_cits_nonempty_all. Qed.
Print Assumptions C17_closed_tokens_nonempty.
