(* C18 -- year and edition guesses are sound; disambiguation only removes.
   Statements only. *)
From EV Require Import Base.Str Base.PyVal Model.Tokenize Model.Editions Model.Filter Model.Pipeline.
From EV Require Import Proofs.EditionsProofs Proofs.PipeSpec Proofs.PipeYear.
Open Scope Z_scope.

(* a year is accepted only inside the range and is the value of the digits *)
Theorem C18_get_year_sound : forall D hi w y,
  get_year D hi w = Some y -> 1600 <= y <= hi /\ exists n, int_of D w = Some n /\ Z.of_N n = y.
Proof. exact get_year_sound. Qed.
Print Assumptions C18_get_year_sound.

(* the guessed edition is one of the candidates: exact-name candidates if any, else variations *)
Theorem C18_guess_in_candidates : forall ty exact var year e,
  guess_edition ty exact var year = Some e -> In e (candidates exact var).
Proof. exact guess_in_candidates. Qed.
Print Assumptions C18_guess_in_candidates.

(* exactly one candidate: always guessed *)
Theorem C18_guess_singleton : forall ty exact var year e,
  candidates exact var = [e] -> guess_edition ty exact var year = Some e.
Proof. exact guess_singleton. Qed.
Print Assumptions C18_guess_singleton.

(* several candidates: a guess needs a year, and the guess is the only candidate publishing in that year *)
Theorem C18_guess_needs_year : forall ty exact var year e a b l,
  candidates exact var = a :: b :: l ->
  guess_edition ty exact var year = Some e ->
  exists y, year = Some y /\ y <> 0 /\ includes_year ty e y = true /\
            forall e', In e' (candidates exact var) -> includes_year ty e' y = true -> In e' [e].
Proof. exact guess_needs_year. Qed.
Print Assumptions C18_guess_needs_year.

(* disambiguation only removes: exactly the non-resource citations and the resource citations with a guess *)
Theorem C18_disambiguate : forall (A : Type) (isr hg : A -> bool) l c,
  In c (disambiguate isr hg l) <-> In c l /\ (isr c = false \/ hg c = true).
Proof. exact @disambiguate_spec. Qed.
Print Assumptions C18_disambiguate.

(* ---- through the whole extraction pipeline: every constructor path, every text,
   every token stream, every behaviour of the regex searches ---- *)
Theorem C18_pipeline_year :
  forall search refsearch MAXC BACK D highest this_year edition_of source_of valid_name is_space text words cits ra l,
  get_citations search refsearch MAXC BACK D highest this_year edition_of source_of valid_name is_space
                text words cits ra = Ok l ->
  Forall (year_ok D highest) l.
Proof. exact get_citations_year. Qed.
Print Assumptions C18_pipeline_year.

Theorem C18_pipeline_guess_candidates :
  forall search refsearch MAXC BACK D highest this_year edition_of source_of valid_name is_space text words cits ra l c e,
  text <> s_eyecite ->
  get_citations search refsearch MAXC BACK D highest this_year edition_of source_of valid_name is_space
                text words cits ra = Ok l -> In c l -> p_guess c = Some e ->
  In e (candidates (editions_of edition_of (t_exact (p_tok c))) (editions_of edition_of (t_var (p_tok c)))).
Proof. exact get_citations_guess_candidates. Qed.
Print Assumptions C18_pipeline_guess_candidates.

Theorem C18_pipeline_guess_singleton :
  forall search refsearch MAXC BACK D highest this_year edition_of source_of valid_name is_space text words cits ra l c e,
  text <> s_eyecite ->
  get_citations search refsearch MAXC BACK D highest this_year edition_of source_of valid_name is_space
                text words cits ra = Ok l -> In c l -> is_resource c = true ->
  candidates (editions_of edition_of (t_exact (p_tok c))) (editions_of edition_of (t_var (p_tok c))) = [e] ->
  p_guess c = Some e.
Proof. exact get_citations_guess_singleton. Qed.
Print Assumptions C18_pipeline_guess_singleton.

(* remove_ambiguous=True is the default run minus unguessed resource citations, same order --
   for every text except the easter egg (next theorem) *)
Theorem C18_remove_ambiguous_partial :
  forall search refsearch MAXC BACK D highest this_year edition_of source_of valid_name is_space text words cits l,
  text <> s_eyecite ->
  get_citations search refsearch MAXC BACK D highest this_year edition_of source_of valid_name is_space
                text words cits false = Ok l ->
  get_citations search refsearch MAXC BACK D highest this_year edition_of source_of valid_name is_space
                text words cits true = Ok (Filter.disambiguate is_resource has_guess l).
Proof. exact get_citations_remove_ambiguous_weak. Qed.
Print Assumptions C18_remove_ambiguous_partial.

(* the full statement is refuted by the text "eyecite": the shared easter-egg citation is an
   unguessed resource citation that survives remove_ambiguous (known finding) *)
Theorem C18_remove_ambiguous_refuted :
  forall search refsearch MAXC BACK D highest this_year edition_of source_of valid_name is_space words cits,
  get_citations search refsearch MAXC BACK D highest this_year edition_of source_of valid_name is_space
                s_eyecite words cits false = Ok [joke_cite] /\
  get_citations search refsearch MAXC BACK D highest this_year edition_of source_of valid_name is_space
                s_eyecite words cits true <> Ok (Filter.disambiguate is_resource has_guess [joke_cite]).
Proof. exact get_citations_remove_ambiguous_counterexample. Qed.
Print Assumptions C18_remove_ambiguous_refuted.

(* ---- the same statements for the closed model (Model/E2EClosed.v: text and year in, citations out):
   no hypothesis at all beyond those above ---- *)
From EV Require Import Base.PyVal Model.Extract Model.E2E Model.RefEngine Model.E2EClosed Proofs.ClosedProofs.
From EV Require Import Gen.Unicode Gen.Consts.

Theorem C18_closed_year : forall this_year s ra l,
  get_citations_closed this_year s ra = Ok l -> Forall (year_ok DT (Z.of_N highest_valid_year)) l.
Proof. exact closed_year. Qed.
Print Assumptions C18_closed_year.

Theorem C18_closed_guess_candidates : forall this_year s ra l c e,
  s <> s_eyecite -> get_citations_closed this_year s ra = Ok l -> In c l -> p_guess c = Some e ->
  In e (candidates (editions_of ed_of_gen (t_exact (p_tok c))) (editions_of ed_of_gen (t_var (p_tok c)))).
Proof. exact closed_guess_candidates. Qed.
Print Assumptions C18_closed_guess_candidates.

Theorem C18_closed_guess_singleton : forall this_year s ra l c e,
  s <> s_eyecite -> get_citations_closed this_year s ra = Ok l -> In c l -> is_resource c = true ->
  candidates (editions_of ed_of_gen (t_exact (p_tok c))) (editions_of ed_of_gen (t_var (p_tok c))) = [e] ->
  p_guess c = Some e.
Proof. exact closed_guess_singleton. Qed.
Print Assumptions C18_closed_guess_singleton.

Theorem C18_closed_remove_ambiguous : forall this_year s l,
  s <> s_eyecite -> get_citations_closed this_year s false = Ok l ->
  get_citations_closed this_year s true = Ok (Filter.disambiguate is_resource has_guess l).
Proof. exact closed_remove_ambiguous. Qed.
Print Assumptions C18_closed_remove_ambiguous.
