(* C03 -- citations come back in document order, unique; the public filter
   keeps every non-reference citation, restores the guarantees and is
   idempotent.  Statements only.  These are laws of filter_citations for ALL
   lists of citations (arbitrary spans, full spans and kinds). *)
From EV Require Import Base.Str Model.Filter Proofs.FilterProofs.
From Coq Require Import Sorting.Sorted.
Open Scope Z_scope.

(* strictly increasing in span order: document order, and no two identical spans *)
Theorem C03_sorted : forall l, StronglySorted span_lt (filter_citations l).
Proof. exact filter_sorted. Qed.
Print Assumptions C03_sorted.

Theorem C03_unique_spans : forall l, NoDup (map f_span (filter_citations l)).
Proof. exact filter_nodup. Qed.
Print Assumptions C03_unique_spans.

(* nothing is invented ... *)
Theorem C03_subset : forall l c, In c (filter_citations l) -> is_last_with_span l c.
Proof. exact filter_subset. Qed.
Print Assumptions C03_subset.

(* ... and nothing but reference citations is ever dropped (beyond same-span
   duplicates, where the later-inserted citation wins) *)
Theorem C03_keeps_nonrefs : forall l c, is_last_with_span l c -> f_ref c = false -> In c (filter_citations l).
Proof. exact filter_keeps_nonrefs. Qed.
Print Assumptions C03_keeps_nonrefs.

(* the documented two-step flow: merging more (reference) citations and
   filtering again keeps every non-reference already present *)
Theorem C03_merge_keeps : forall l extra c,
  In c (filter_citations l) -> f_ref c = false ->
  (forall x, In x extra -> zspan_eqb (f_span x) (f_span c) = false) ->
  In c (filter_citations (filter_citations l ++ extra)).
Proof. exact filter_merge_keeps. Qed.
Print Assumptions C03_merge_keeps.

Theorem C03_idempotent : forall l, filter_citations (filter_citations l) = filter_citations l.
Proof. exact filter_idempotent. Qed.
Print Assumptions C03_idempotent.

(* a retained reference never overlaps (by full span) its neighbour in the full-span pass *)
Theorem C03_ref_neighbours : forall l a b l1 l2,
  fullpass l = l1 ++ a :: b :: l2 -> (f_ref a = true \/ f_ref b = true) ->
  overlapping (f_full b) (f_full a) = false.
Proof. exact fullpass_ref_neighbours. Qed.
Print Assumptions C03_ref_neighbours.

(* non-vacuity: 'A v. B, 550 U.S. at 556, 127 S.Ct. 1955' -- the later citation's
   full span starts before the earlier citation; the result is in span order *)
Example C03_nonvacuous :
  let short := {| f_id := 0; f_ref := false; f_span := (8, 23); f_full := (8, 23) |} in
  let full  := {| f_id := 1; f_ref := false; f_span := (25, 39); f_full := (0, 39) |} in
  map f_id (filter_citations [short; full]) = [0%nat; 1%nat].
Proof. vm_compute. reflexivity. Qed.

(* ---- the clause about EXTRACTED citations: document order and no overlap, through the whole pipeline.
   Found false of the unrepaired code by the proof attempt (a reference overlapping an earlier kept citation that
   is not the last one kept: D24); holds for the repaired filter ---- *)
From EV Require Import Base.PyVal Model.Tokenize Model.Pipeline Model.SearchEngine Model.Extract Model.E2E Model.RefEngine Model.E2EClosed.
From EV Require Import Proofs.PipeSpec Proofs.PipeMeta Proofs.FilterDisjoint Proofs.SpansDisjoint.

(* a kept reference's full span overlaps no other kept citation's full span *)
Theorem C03_refs_disjoint : forall l,
  (forall x, In x l -> full_nonempty x) ->
  forall r y, In r (filter_citations l) -> In y (filter_citations l) -> f_ref r = true -> r <> y ->
    overlapping (f_full r) (f_full y) = false.
Proof. exact filter_refs_disjoint. Qed.
Print Assumptions C03_refs_disjoint.

(* any oracle meeting the (window-guarded) contracts, any stream with the C12 properties *)
Theorem C03_extracted_spans_disjoint :
  forall (Wok : str -> Prop)
         search refsearch MAXC BACK D highest this_year edition_of source_of valid_name is_space
         text words cits ra l,
  text <> s_eyecite ->
  stream_ok text words -> cits_ok words cits -> toks_ok source_of words ->
  (forall a b, Wok (slice text a b)) ->
  search_ok_w Wok search -> refs_ok refsearch -> refs_nonempty refsearch ->
  (forall w, search PPostShort w <> None) ->
  cits_sorted cits -> cits_nonempty cits ->
  get_citations search refsearch MAXC BACK D highest this_year edition_of source_of valid_name is_space
                text words cits ra = Ok l ->
  StronglySorted (fun a b => (snd (span_of a) <= fst (span_of b))%Z) l.
Proof. exact get_citations_spans_disjoint. Qed.
Print Assumptions C03_extracted_spans_disjoint.

(* the closed model: text and year in, citations out -- premises on the text only *)
Theorem C03_closed_spans_disjoint : forall this_year s ra l,
  s <> s_eyecite -> ws_clean is_space_gen s ->
  get_citations_closed this_year s ra = Ok l ->
  StronglySorted (fun a b => (snd (span_of a) <= fst (span_of b))%Z) l.
Proof. exact closed_spans_disjoint. Qed.
Print Assumptions C03_closed_spans_disjoint.

(* non-reference citations: for EVERY text but the easter egg *)
Theorem C03_closed_nonref_spans_disjoint : forall this_year s ra l,
  s <> s_eyecite -> get_citations_closed this_year s ra = Ok l ->
  StronglySorted (fun a b => (snd (span_of a) <= fst (span_of b))%Z) (filter (fun c => negb (is_ref c)) l).
Proof. exact closed_nonref_spans_disjoint. Qed.
Print Assumptions C03_closed_nonref_spans_disjoint.

