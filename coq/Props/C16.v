(* C16 -- citation equality identifies the cited document, not its spelling or
   context.  Statements only.  Equality / hash / Resource equality of citations
   is equality of their hash keys (key_of), sha256 o JSON assumed injective. *)
From EV Require Import Base.Str Base.PyVal Model.Tokenize Model.Resolve Model.Editions.
From EV Require Import Proofs.ResolveSpec Proofs.ResolveProofs Proofs.HashProofs Proofs.HashDb Gen.Db Gen.ExtractorIndex.

(* an equivalence relation, consistent with hashing by construction *)
Theorem C16_sym : forall a b, cite_eq a b -> cite_eq b a.
Proof. exact cite_eq_sym. Qed.
Print Assumptions C16_sym.
Theorem C16_trans : forall a b c, cite_eq a b -> cite_eq b c -> cite_eq a c.
Proof. exact cite_eq_trans. Qed.
Print Assumptions C16_trans.
Theorem C16_refl : forall a k, key_of a = Ok k -> cite_eq a a.
Proof. exact cite_eq_refl. Qed.
Print Assumptions C16_refl.

(* case citations with a page: equal exactly when class, volume, page and corrected reporter agree *)
Theorem C16_only_volume_reporter_page : forall a b pa pb ra rb,
  is_case a -> is_case b ->
  glookup k_page (c_groups a) = Some (Some pa) -> glookup k_page (c_groups b) = Some (Some pb) ->
  corrected_reporter a = Ok ra -> corrected_reporter b = Ok rb ->
  (cite_eq a b <->
   c_cls a = c_cls b /\ glookup k_volume (c_groups a) = glookup k_volume (c_groups b) /\ pa = pb /\ ra = rb).
Proof. exact case_eq_iff. Qed.
Print Assumptions C16_only_volume_reporter_page.

(* pin cite, year string, parties, parenthetical, antecedent, spans do not enter the key *)
Theorem C16_metadata_irrelevant : forall a b,
  c_cls a = c_cls b -> c_groups a = c_groups b -> c_guess a = c_guess b -> c_eds a = c_eds b ->
  oid a = oid b -> key_of a = key_of b.
Proof. exact key_ignores_metadata. Qed.
Print Assumptions C16_metadata_irrelevant.

(* placeholder-page, id. and unknown citations are equal only to themselves *)
Theorem C16_identity_kinds : forall c,
  (is_case c /\ glookup k_page (c_groups c) = Some None) \/ c_cls c = IdC \/ c_cls c = Unknown ->
  key_of c = Ok (KId (oid c)).
Proof. exact identity_key. Qed.
Print Assumptions C16_identity_kinds.
Theorem C16_identity_distinct : forall a b,
  key_of a = Ok (KId (oid a)) -> oid a <> oid b -> ~ cite_eq a b.
Proof. exact identity_distinct. Qed.
Print Assumptions C16_identity_distinct.

(* full, short, law and journal citations are never equal across kinds *)
Theorem C16_cross_kind : forall a b k,
  key_of a = Ok k -> key_of b = Ok k -> key_cls k <> None -> c_cls a = c_cls b.
Proof. exact cross_kind_never_equal. Qed.
Print Assumptions C16_cross_kind.

(* every reporter string of the regenerated database table that maps unambiguously (without a
   year) to an edition normalises to the same reporter string as that edition's own name *)
Theorem C16_variations : forall row i,
  In row db_strings ->
  guess_ids 0 editions_tbl (snd (fst row)) (snd row) = Some i ->
  exists r, In r db_strings /\ fst (fst r) = name_of editions_tbl i /\
            corrected_name editions_tbl r = corrected_name editions_tbl row.
Proof. exact db_variation. Qed.
Print Assumptions C16_variations.
