(* C12 -- the token stream partitions the text.
   Statements only; every proof is `exact <lemma>`.  `cands` is whatever
   extract_tokens yields (any of the three shipped tokenizers or a custom one),
   in any order, with any overlaps and duplicates, empty matches included. *)
From EV Require Import Base.Str Model.Tokenize Proofs.TokenizeProofs.

(* concatenating the returned tokens reproduces the text exactly *)
Theorem C12_concat : forall text nominative cands, Forall (cand_wf text) cands ->
  stream_text (fst (tokenize text nominative cands)) = text.
Proof. exact tokenize_concat. Qed.
Print Assumptions C12_concat.

(* the index list points at exactly the special tokens, in order *)
Theorem C12_index : forall text nominative cands, Forall (cand_wf text) cands ->
  snd (tokenize text nominative cands) = specials (fst (tokenize text nominative cands)).
Proof. exact tokenize_index. Qed.
Print Assumptions C12_index.

(* every special token's offsets index its own text, and its start is the
   total length of the elements before it *)
Theorem C12_offsets : forall text nominative cands, Forall (cand_wf text) cands ->
  forall i t, In (i, t) (snd (tokenize text nominative cands)) ->
    nth_error (fst (tokenize text nominative cands)) i = Some (T t) /\
    cand_wf text t /\
    length (stream_text (firstn i (fst (tokenize text nominative cands)))) = t_start t.
Proof. exact tokenize_offsets. Qed.
Print Assumptions C12_offsets.

(* special tokens are in increasing, non-overlapping order *)
Theorem C12_increasing : forall text nominative cands, Forall (cand_wf text) cands ->
  forall l1 i t j t' l2,
    snd (tokenize text nominative cands) = l1 ++ (i, t) :: (j, t') :: l2 ->
    i < j /\ t_end t <= t_start t'.
Proof. exact tokenize_increasing. Qed.
Print Assumptions C12_increasing.

(* plain text is split on single spaces, separators kept, nothing lost *)
Theorem C12_append_text_concat : forall s, concat (append_text s) = s.
Proof. exact append_text_concat. Qed.
Print Assumptions C12_append_text_concat.

Theorem C12_append_text_nonempty : forall s, Forall (fun p => p <> []) (append_text s).
Proof. exact append_text_nonempty. Qed.
Print Assumptions C12_append_text_nonempty.

(* ---- closed end to end: the candidates are COMPUTED from the text by the model of extract_tokens
   (Model/Extract.v: re.finditer by the verified engine over the regenerated extractor table, the
   Aho-Corasick pre-filter, Token.from_match), so no hypothesis on the candidate list remains ---- *)
From EV Require Import Regex.Syntax Regex.Decl Regex.Match Regex.C13Check Model.Extract Model.E2E Proofs.ExtractSpec Proofs.ExtractProofs.

(* every match the scanner model reports is a match of the pattern (declarative semantics), inside the
   text, with its captures inside the match; successive matches never overlap *)
Theorem C12_finditer_sound : forall U ci s r i j c, In (i, j, c) (finditer U ci s r) ->
  M U ci s r i j /\ i <= j /\ j <= length s /\ (forall n a b, In (n, (a, b)) c -> i <= a /\ a <= b /\ b <= j).
Proof. exact finditer_sound. Qed.
Print Assumptions C12_finditer_sound.

Theorem C12_finditer_chain : forall U ci s r, chain scan_step (finditer U ci s r).
Proof. exact finditer_chain. Qed.
Print Assumptions C12_finditer_chain.

(* every candidate any extractor list yields indexes its own text *)
Theorem C12_candidates_wf : forall U xs s, Forall (cand_wf s) (extract_with U xs s).
Proof. exact extract_with_wf. Qed.
Print Assumptions C12_candidates_wf.

(* every extractor of the live table yields one token per match (group 1 always participates) *)
Theorem C12_one_token_per_match : forall x s, In x Gen.ExtractTable.xtable ->
  length (tokens_of Gen.Unicode.U x s) = length (finditer Gen.Unicode.U (row_ci (fst x)) s (row_re (fst x))).
Proof. exact xtable_tokens_of_length. Qed.
Print Assumptions C12_one_token_per_match.

(* the partition property for the default tokenizer as a function of the text alone *)
Theorem C12_text_concat : forall s, stream_text (fst (tokenize_text s)) = s.
Proof. exact tokenize_text_concat. Qed.
Print Assumptions C12_text_concat.

Theorem C12_text_index : forall s, snd (tokenize_text s) = specials (fst (tokenize_text s)).
Proof. exact tokenize_text_index. Qed.
Print Assumptions C12_text_index.

Theorem C12_text_offsets : forall s i t, In (i, t) (snd (tokenize_text s)) ->
  nth_error (fst (tokenize_text s)) i = Some (T t) /\ cand_wf s t /\
  length (stream_text (firstn i (fst (tokenize_text s)))) = t_start t.
Proof. exact tokenize_text_offsets. Qed.
Print Assumptions C12_text_offsets.

Theorem C12_text_increasing : forall s l1 i t j t' l2,
  snd (tokenize_text s) = l1 ++ (i, t) :: (j, t') :: l2 -> (i < j)%nat /\ (t_end t <= t_start t')%nat.
Proof. exact tokenize_text_increasing. Qed.
Print Assumptions C12_text_increasing.

(* non-vacuity: a nominative-reporter candidate overlapped by a later
   citation candidate (the pop branch) on "Ab Thompson 1 U" *)
Example C12_nonvacuous :
  let text := [65;98;32;84;104;111;109;112;115;111;110;32;49;32;85]%N in
  let nomc := {| t_kind := KCitation; t_start := 0; t_end := 11; t_data := slice text 0 11;
                 t_groups := []; t_short := false; t_exact := [7]; t_var := [] |} in
  let cit := {| t_kind := KCitation; t_start := 3; t_end := 15; t_data := slice text 3 15;
                t_groups := []; t_short := false; t_exact := [1]; t_var := [] |} in
  Forall (cand_wf text) [cit; nomc] /\
  length (snd (tokenize text (fun t => existsb (Nat.eqb 7) (t_exact t)) [cit; nomc])) = 1 /\
  stream_text (fst (tokenize text (fun t => existsb (Nat.eqb 7) (t_exact t)) [cit; nomc])) = text.
Proof. vm_compute. repeat split; repeat constructor. Qed.
