(* C12 -- the token stream partitions the text.
   Statements only; every proof is `exact <lemma>`.  `cands` is whatever
   extract_tokens yields (any of the three shipped tokenizers or a custom one),
   in any order, with any overlaps and duplicates, empty matches included. *)
From EV Require Import Base.Str Model.Tokenize Proofs.TokenizeProofs.

(* concatenating the returned tokens reproduces the text exactly *)
Theorem C12_concat : forall text nominative cands, Forall (cand_wf text) cands ->
  stream_text (fst (tokenize text nominative cands)) = text.
Proof. exact tokenize_concat. Qed.
Print Assumptions C12_concat.

(* the index list points at exactly the special tokens, in order *)
Theorem C12_index : forall text nominative cands, Forall (cand_wf text) cands ->
  snd (tokenize text nominative cands) = specials (fst (tokenize text nominative cands)).
Proof. exact tokenize_index. Qed.
Print Assumptions C12_index.

(* every special token's offsets index its own text, and its start is the
   total length of the elements before it *)
Theorem C12_offsets : forall text nominative cands, Forall (cand_wf text) cands ->
  forall i t, In (i, t) (snd (tokenize text nominative cands)) ->
    nth_error (fst (tokenize text nominative cands)) i = Some (T t) /\
    cand_wf text t /\
    length (stream_text (firstn i (fst (tokenize text nominative cands)))) = t_start t.
Proof. exact tokenize_offsets. Qed.
Print Assumptions C12_offsets.

(* special tokens are in increasing, non-overlapping order *)
Theorem C12_increasing : forall text nominative cands, Forall (cand_wf text) cands ->
  forall l1 i t j t' l2,
    snd (tokenize text nominative cands) = l1 ++ (i, t) :: (j, t') :: l2 ->
    i < j /\ t_end t <= t_start t'.
Proof. exact tokenize_increasing. Qed.
Print Assumptions C12_increasing.

(* plain text is split on single spaces, separators kept, nothing lost *)
Theorem C12_append_text_concat : forall s, concat (append_text s) = s.
Proof. exact append_text_concat. Qed.
Print Assumptions C12_append_text_concat.

Theorem C12_append_text_nonempty : forall s, Forall (fun p => p <> []) (append_text s).
Proof. exact append_text_nonempty. Qed.
Print Assumptions C12_append_text_nonempty.

(* non-vacuity: a nominative-reporter candidate overlapped by a later
   citation candidate (the pop branch) on "Ab Thompson 1 U" *)
Example C12_nonvacuous :
  let text := [65;98;32;84;104;111;109;112;115;111;110;32;49;32;85]%N in
  let nomc := {| t_kind := KCitation; t_start := 0; t_end := 11; t_data := slice text 0 11;
                 t_groups := []; t_short := false; t_exact := [7]; t_var := [] |} in
  let cit := {| t_kind := KCitation; t_start := 3; t_end := 15; t_data := slice text 3 15;
                t_groups := []; t_short := false; t_exact := [1]; t_var := [] |} in
  Forall (cand_wf text) [cit; nomc] /\
  length (snd (tokenize text (fun t => existsb (Nat.eqb 7) (t_exact t)) [cit; nomc])) = 1 /\
  stream_text (fst (tokenize text (fun t => existsb (Nat.eqb 7) (t_exact t)) [cit; nomc])) = text.
Proof. vm_compute. repeat split; repeat constructor. Qed.
