(* C11 -- 'skip' and 'wrap' modes keep well-formed markup well-formed.  Statements only.
   Tag grammar: text characters other than < > &, tags <n>, </n>, <n/> (Model/Tags.v).
   c11_setting src plain ts st: the source lexes to ts and is well-formed, the plain text is
   its text content, and st is the forced alignment (insert-only diff placing the i-th plain
   character at the i-th text position). *)
From EV Require Import Base.Str Base.PyVal Model.Annotate Model.Tags Proofs.AnnotateProofs Proofs.TagsLex Proofs.TagsProofs.
Open Scope Z_scope.

(* 'wrap': the output is well-formed and its text content is unchanged, for every span set
   (overlapping, touching, unsorted) and every well-formed source *)
Theorem C11_wrap : forall tol src plain ts st annots,
  c11_setting src plain ts st -> plain <> [] ->
  Forall (fun a => 0 <= a_start a /\ a_start a < a_end a /\ a_end a <= zlen plain) annots ->
  Forall tag_annot annots ->
  exists ps out, annotate is_balanced_html tol src (Some (mk st)) Wrap annots = Ok ps /\
    lex (render ps) = Some out /\ wf out = true /\ text_of out = plain.
Proof. exact annotate_wrap_wellformed. Qed.
Print Assumptions C11_wrap.

(* 'skip': the output is well-formed (an annotation that cannot be made balanced is omitted,
   never emitted unbalanced) and its text content is unchanged *)
Theorem C11_skip : forall tol src plain ts st annots,
  c11_setting src plain ts st -> plain <> [] -> 0 <= tol ->
  Forall (fun a => 0 <= a_start a /\ a_start a < a_end a /\ a_end a <= zlen plain) annots ->
  Forall tag_annot annots ->
  exists ps out, annotate is_balanced_html tol src (Some (mk st)) Skip annots = Ok ps /\
    lex (render ps) = Some out /\ wf out = true /\ text_of out = plain.
Proof. exact annotate_skip_wellformed. Qed.
Print Assumptions C11_skip.

(* the lexer and the printer are inverse on the grammar *)
Theorem C11_lex_unlex : forall l, Forall (fun t => valid_tok t = true) l -> lex (unlex l) = Some l.
Proof. exact lex_unlex. Qed.
Print Assumptions C11_lex_unlex.
Theorem C11_unlex_lex : forall s l, lex s = Some l -> unlex l = s /\ Forall (fun t => valid_tok t = true) l.
Proof. exact unlex_lex. Qed.
Print Assumptions C11_unlex_lex.

(* Dyck insertion: wrapping a well-formed segment in an element does not change the stack machine *)
Theorem C11_run_wrap : forall x m y n st, wf m = true ->
  run st (x ++ TOpen n :: m ++ TClose n :: y) = run st (x ++ m ++ y).
Proof. exact run_wrap_wf. Qed.
Print Assumptions C11_run_wrap.

(* non-vacuity: x<i>y</i>z annotated at [0,2) with <a>...</a> *)
Example C11_nonvacuous :
  let src := [120; 60; 105; 62; 121; 60; 47; 105; 62; 122]%N in
  let st := [(OpEq, 1%nat); (OpIns, 3%nat); (OpEq, 1%nat); (OpIns, 4%nat); (OpEq, 1%nat)] in
  let a := {| a_start := 0; a_end := 2; a_before := [60; 97; 62]%N; a_after := [60; 47; 97; 62]%N |} in
  match annotate is_balanced_html 10 src (Some (mk st)) Wrap [a] with
  | Ok ps => render ps = [60;97;62;120;60;47;97;62;60;105;62;60;97;62;121;60;47;97;62;60;47;105;62;122]%N
  | Err _ => False
  end.
Proof. vm_compute. reflexivity. Qed.
