(* Regex/ShapeSound.v -- soundness of the fragment matcher of Regex/Shape.v for
   the declarative semantics (Regex/Decl.v), and membership of the minimal
   written forms "VOL REPORTER[,] [at ]PAGE" in the language of every extractor
   of the $full_cite template family (C01). *)
From EV Require Import Base.Str Regex.Syntax Regex.Decl Regex.Shape.
From Coq Require Import Lia ZifyN ZifyBool.

(* ---- list / slice facts ---- *)

Lemma app_eq_len {A} (a a' b b' : list A) :
  length a = length a' -> a ++ b = a' ++ b' -> a = a' /\ b = b'.
Proof.
  revert a'; induction a as [|x a IH]; intros [|y a'] Hl H; cbn in Hl, H; try discriminate.
  - auto.
  - injection H as Hxy H. injection Hl as Hl.
    destruct (IH a' Hl H) as [Ha Hb]. subst. auto.
Qed.

Lemma slice_nth {A} (s : list A) i x : slice s i (i + 1) = [x] -> nth_error s i = Some x.
Proof.
  unfold slice. replace (i + 1 - i) with 1 by lia.
  revert s; induction i as [|i IH]; intros [|y s] H; cbn in H |- *; try discriminate.
  - congruence.
  - apply IH; exact H.
Qed.

Lemma slice_split {A} (s : list A) i (a b : list A) :
  i + (length a + length b) <= length s ->
  slice s i (i + (length a + length b)) = a ++ b ->
  slice s i (i + length a) = a /\ slice s (i + length a) (i + length a + length b) = b.
Proof.
  intros Hlen H.
  rewrite <- (slice_app s i (i + length a) (i + (length a + length b))) in H by lia.
  apply app_eq_len in H.
  - replace (i + length a + length b) with (i + (length a + length b)) by lia. exact H.
  - rewrite slice_length by lia. lia.
Qed.

Lemma skipn_app_exact {A} (a l : list A) : skipn (length a) (a ++ l) = l.
Proof. induction a as [|x a IH]; cbn; auto. Qed.

Lemma firstn_app_exact {A} (w b : list A) : firstn (length w) (w ++ b) = w.
Proof. induction w as [|x w IH]; cbn; [reflexivity|]. f_equal; exact IH. Qed.

Lemma slice_mid {A} (a w b : list A) :
  slice (a ++ w ++ b) (length a) (length a + length w) = w.
Proof.
  unfold slice. replace (length a + length w - length a) with (length w) by lia.
  rewrite skipn_app_exact. apply firstn_app_exact.
Qed.

Lemma nth_mid {A} (a : list A) x b : nth_error (a ++ x :: b) (length a) = Some x.
Proof. induction a as [|y a IH]; cbn; auto. Qed.

(* ---- "the word w, wherever it occurs in a text, is spanned by P" ---- *)

Definition matches (P : str -> nat -> nat -> Prop) (w : str) : Prop :=
  forall s i, i + length w <= length s -> slice s i (i + length w) = w -> P s i (i + length w).

Definition holds (P : str -> nat -> nat -> Prop) (w rest : str) : Prop :=
  exists pre, w = pre ++ rest /\ matches P pre.

Lemma matches_nil (P : str -> nat -> nat -> Prop) :
  (forall s i, i <= length s -> P s i i) -> matches P [].
Proof.
  intros H s i Hlen _. cbn [length] in *. rewrite Nat.add_0_r in *. apply H; exact Hlen.
Qed.

Lemma matches_char (P : str -> nat -> nat -> Prop) x :
  (forall s i, nth_error s i = Some x -> P s i (S i)) -> matches P [x].
Proof.
  intros H s i Hlen Hsl. cbn [length] in *. replace (i + 1) with (S i) by lia.
  apply H. apply slice_nth. exact Hsl.
Qed.

Lemma matches_seq (P Q R : str -> nat -> nat -> Prop) :
  (forall s i j k, P s i j -> Q s j k -> R s i k) ->
  forall a b, matches P a -> matches Q b -> matches R (a ++ b).
Proof.
  intros Hc a b Ha Hb s i Hlen Hsl. rewrite app_length in *.
  destruct (slice_split s i a b Hlen Hsl) as [H1 H2].
  rewrite Nat.add_assoc.
  eapply Hc; [apply Ha | apply Hb]; try assumption; lia.
Qed.

Lemma matches_mono (P Q : str -> nat -> nat -> Prop) :
  (forall s i j, P s i j -> Q s i j) -> forall w, matches P w -> matches Q w.
Proof. intros H w Hw s i Hlen Hsl. apply H, Hw; assumption. Qed.

Lemma holds_nil (P : str -> nat -> nat -> Prop) :
  (forall s i, i <= length s -> P s i i) -> forall w, holds P w w.
Proof. intros H w. exists []. split; [reflexivity|]. apply matches_nil; exact H. Qed.

Lemma holds_char (P : str -> nat -> nat -> Prop) x :
  (forall s i, nth_error s i = Some x -> P s i (S i)) -> forall t, holds P (x :: t) t.
Proof. intros H t. exists [x]. split; [reflexivity|]. apply matches_char; exact H. Qed.

Lemma holds_seq (P Q R : str -> nat -> nat -> Prop) :
  (forall s i j k, P s i j -> Q s j k -> R s i k) ->
  forall w mid rest, holds P w mid -> holds Q mid rest -> holds R w rest.
Proof.
  intros Hc w mid rest [p1 [E1 H1]] [p2 [E2 H2]].
  exists (p1 ++ p2). split.
  - rewrite E1, E2, app_assoc. reflexivity.
  - eapply matches_seq; eassumption.
Qed.

Lemma holds_mono (P Q : str -> nat -> nat -> Prop) :
  (forall s i j, P s i j -> Q s i j) -> forall w rest, holds P w rest -> holds Q w rest.
Proof.
  intros H w rest [p [E Hp]]. exists p. split; [exact E|]. eapply matches_mono; eassumption.
Qed.

Section S.
  Variable U : utables.

  Definition Mr (r : re) : str -> nat -> nat -> Prop := fun s i j => M U false s r i j.
  Definition MNr (r : re) (n : nat) : str -> nat -> nat -> Prop := fun s i j => MN U false s r n i j.

  Lemma MN_app s r n : forall m i j k,
    MN U false s r n i j -> MN U false s r m j k -> MN U false s r (n + m) i k.
  Proof.
    induction n as [|n IH]; intros m i j k H1 H2; inversion H1; subst.
    - exact H2.
    - cbn [Nat.add]. eapply MNS; [eassumption|]. eapply IH; eassumption.
  Qed.

  Lemma MN_le s r n i j : MN U false s r n i j -> j <= length s.
  Proof. induction 1; auto. Qed.

  (* ---- the fragment matcher ---- *)

  Section Body.
    Variable r : re.
    Hypothesis IH : forall w rest, In rest (ends U r w) -> holds (Mr r) w rest.

    Lemma iter_sound : forall n w rest,
      In rest (iter_ends (ends U r) n w) -> holds (MNr r n) w rest.
    Proof.
      induction n as [|n IHn]; intros w rest Hin; cbn [iter_ends] in Hin.
      - destruct Hin as [<-|[]]. apply holds_nil. intros s i Hi. apply MN0; exact Hi.
      - apply in_flat_map in Hin. destruct Hin as [mid [H1 H2]].
        apply (holds_seq (Mr r) (MNr r n) (MNr r (S n))) with (mid := mid).
        + intros s i j k Ha Hb. unfold Mr, MNr in *. eapply MNS; eassumption.
        + apply IH; exact H1.
        + apply IHn; exact H2.
    Qed.

    Lemma rep_sound : forall n w rest,
      In rest (rep_ends (ends U r) n w) -> exists m, m <= n /\ holds (MNr r m) w rest.
    Proof.
      induction n as [|n IHn]; intros w rest Hin; cbn [rep_ends] in Hin.
      - destruct Hin as [<-|[]]. exists 0. split; [lia|].
        apply holds_nil. intros s i Hi. apply MN0; exact Hi.
      - destruct Hin as [<-|Hin].
        + exists 0. split; [lia|]. apply holds_nil. intros s i Hi. apply MN0; exact Hi.
        + apply in_flat_map in Hin. destruct Hin as [mid [H1 H2]].
          destruct (IHn mid rest H2) as [m [Hm Hh]].
          exists (S m). split; [lia|].
          apply (holds_seq (Mr r) (MNr r m) (MNr r (S m))) with (mid := mid).
          * intros s i j k Ha Hb. unfold Mr, MNr in *. eapply MNS; eassumption.
          * apply IH; exact H1.
          * exact Hh.
    Qed.
  End Body.

  Lemma ends_holds : forall r w rest, In rest (ends U r w) -> holds (Mr r) w rest.
  Proof.
    induction r as [| |c|c| |neg items| | | |a IHa b IHb|a IHa b IHb|idx r IHr|lo hi r IHr|r IHr];
      intros w rest Hin; cbn [ends] in Hin.
    - (* Eps *) destruct Hin as [<-|[]]. apply holds_nil. intros s i Hi. apply MEps; exact Hi.
    - (* Fail *) destruct Hin.
    - (* Lit *) destruct w as [|x t]; [destruct Hin|].
      destruct (lit_mem U false c x) eqn:E; [|destruct Hin]. destruct Hin as [<-|[]].
      apply holds_char. intros s i Hn. eapply MLit; eassumption.
    - (* NotLit *) destruct w as [|x t]; [destruct Hin|].
      destruct (lit_mem U false c x) eqn:E; [destruct Hin|]. destruct Hin as [<-|[]].
      apply holds_char. intros s i Hn. eapply MNotLit; eassumption.
    - (* Any *) destruct w as [|x t]; [destruct Hin|].
      destruct (N.eqb x 10) eqn:E; [destruct Hin|]. destruct Hin as [<-|[]].
      apply holds_char. intros s i Hn. eapply MAny; eassumption.
    - (* Set_ *) destruct w as [|x t]; [destruct Hin|].
      destruct (set_mem U false neg items x) eqn:E; [|destruct Hin]. destruct Hin as [<-|[]].
      apply holds_char. intros s i Hn. eapply MSet; eassumption.
    - destruct Hin.
    - destruct Hin.
    - destruct Hin.
    - (* Cat *) apply in_flat_map in Hin. destruct Hin as [mid [H1 H2]].
      apply (holds_seq (Mr a) (Mr b) (Mr (Cat a b))) with (mid := mid).
      + intros s i j k Ha Hb. unfold Mr in *. eapply MCat; eassumption.
      + apply IHa; exact H1.
      + apply IHb; exact H2.
    - (* Alt *) apply in_app_or in Hin. destruct Hin as [Hin|Hin].
      + apply (holds_mono (Mr a)); [|apply IHa; exact Hin].
        intros s i j Ha. unfold Mr in *. apply MAltL; exact Ha.
      + apply (holds_mono (Mr b)); [|apply IHb; exact Hin].
        intros s i j Hb. unfold Mr in *. apply MAltR; exact Hb.
    - (* Group *) apply (holds_mono (Mr r)); [|apply IHr; exact Hin].
      intros s i j Hr. unfold Mr in *. apply MGroup; exact Hr.
    - (* Rep *) destruct hi as [hi|]; [|destruct Hin].
      destruct (lo <=? hi) eqn:Ele; [|destruct Hin]. apply Nat.leb_le in Ele.
      apply in_flat_map in Hin. destruct Hin as [mid [H1 H2]].
      apply (iter_sound r IHr) in H1.
      apply (rep_sound r IHr) in H2. destruct H2 as [m [Hm H2]].
      apply (holds_mono (MNr r (lo + m))).
      + intros s i j Hn. unfold Mr, MNr in *.
        apply MRep with (n := lo + m); [lia|lia|exact Hn].
      + apply (holds_seq (MNr r lo) (MNr r m) (MNr r (lo + m))) with (mid := mid); try assumption.
        intros s i j k Ha Hb. unfold MNr in *. eapply MN_app; eassumption.
    - (* Look *) destruct Hin.
  Qed.

  (* 1. the fragment matcher is sound for the declarative semantics, in every context *)
  Theorem ends_sound : forall r w rest, In rest (ends U r w) ->
    exists pre, w = pre ++ rest /\
      forall s i, (i + length pre <= length s)%nat -> slice s i (i + length pre) = pre ->
                  M U false s r i (i + length pre).
  Proof. intros r w rest Hin. exact (ends_holds r w rest Hin). Qed.

  Lemma accepts_matches : forall r w, accepts U r w = true -> matches (Mr r) w.
  Proof.
    intros r w Hacc. unfold accepts in Hacc. apply existsb_exists in Hacc.
    destruct Hacc as [rest [Hin Hrest]]. destruct rest as [|x rest]; [|discriminate].
    destruct (ends_holds r w [] Hin) as [pre [E Hp]]. rewrite app_nil_r in E. subst pre. exact Hp.
  Qed.

  Theorem accepts_sound : forall r w, accepts U r w = true ->
    forall s i, (i + length w <= length s)%nat -> slice s i (i + length w) = w ->
                M U false s r i (i + length w).
  Proof. intros r w Hacc. exact (accepts_matches r w Hacc). Qed.

  (* 2. the minimal written forms are in the language of every extractor of the template family *)
  Definition is_ascii_alnum (c : N) : bool :=
    ((48 <=? c) && (c <=? 57) || (65 <=? c) && (c <=? 90) || (97 <=? c) && (c <=? 122))%N.
  Definition digit_u (c : N) : bool := cat_mem U CDigit c.
  (* a volume: one character in '1'..'9' followed by \d characters *)
  Definition volume_ok (v : str) : Prop :=
    exists c rest, v = c :: rest /\ (49 <=? c)%N && (c <=? 57)%N = true /\ forallb digit_u rest = true.
  (* a page: a non-empty run of \d characters *)
  Definition page_ok (p : str) : Prop := p <> [] /\ forallb digit_u p = true.
  (* neutral context: nothing alphanumeric directly before or after *)
  Definition before_ok (pre : str) : Prop := pre = [] \/ exists a c, pre = a ++ [c] /\ is_ascii_alnum c = false.
  Definition after_ok (post : str) : Prop := post = [] \/ exists c b, post = c :: b /\ is_ascii_alnum c = false.

  Definition written (v R comma : str) (short : bool) (p : str) : str :=
    v ++ [32%N] ++ R ++ comma ++ (if short then [32; 97; 116; 32]%N else [32%N]) ++ p.

  (* ---- pieces of the template ---- *)

  Lemma lit_mem_refl c : lit_mem U false c c = true.
  Proof. unfold lit_mem. rewrite N.eqb_refl. reflexivity. Qed.

  Lemma lit_matches c : matches (Mr (Lit c)) [c].
  Proof.
    apply matches_char. intros s i Hn. unfold Mr. eapply MLit; [exact Hn|apply lit_mem_refl].
  Qed.

  Lemma lits_matches : forall l, matches (Mr (lits l)) l.
  Proof.
    induction l as [|c l IH].
    - apply matches_nil. intros s i Hi. unfold Mr. cbn [lits]. apply MEps; exact Hi.
    - destruct l as [|d t].
      + cbn [lits]. apply lit_matches.
      + change (lits (c :: d :: t)) with (Cat (Lit c) (lits (d :: t))).
        change (c :: d :: t) with ([c] ++ (d :: t)).
        apply (matches_seq (Mr (Lit c)) (Mr (lits (d :: t)))).
        * intros s i j k Ha Hb. unfold Mr in *. eapply MCat; eassumption.
        * apply lit_matches.
        * exact IH.
  Qed.

  Lemma digit_set_mem x : digit_u x = true -> set_mem U false false [SCat CDigit] x = true.
  Proof.
    intros H. unfold digit_u in H. unfold set_mem, items_mem.
    cbn [existsb item_mem]. rewrite H. reflexivity.
  Qed.

  Lemma digit_matches x : digit_u x = true -> matches (Mr DIGIT) [x].
  Proof.
    intros H. apply matches_char. intros s i Hn. unfold Mr, DIGIT.
    eapply MSet; [exact Hn|apply digit_set_mem; exact H].
  Qed.

  Lemma digits_MN : forall l, forallb digit_u l = true -> matches (MNr DIGIT (length l)) l.
  Proof.
    induction l as [|x l IH]; intros H.
    - apply matches_nil. intros s i Hi. unfold MNr. cbn [length]. apply MN0; exact Hi.
    - cbn [forallb] in H. apply andb_true_iff in H. destruct H as [Hx Hl].
      change (x :: l) with ([x] ++ l) at 2. cbn [length].
      apply (matches_seq (Mr DIGIT) (MNr DIGIT (length l))).
      + intros s i j k Ha Hb. unfold Mr, MNr in *. eapply MNS; eassumption.
      + apply digit_matches; exact Hx.
      + apply IH; exact Hl.
  Qed.

  Lemma volume_matches v : volume_ok v -> matches (Mr VOLUME) v.
  Proof.
    intros [c [rest [-> [Hc Hrest]]]].
    change (c :: rest) with ([c] ++ rest). unfold VOLUME.
    apply (matches_seq (Mr (Set_ false [SRange 49 57])) (Mr (Rep 0 None DIGIT))).
    - intros s i j k Ha Hb. unfold Mr in *. eapply MCat; eassumption.
    - apply matches_char. intros s i Hn. unfold Mr. eapply MSet; [exact Hn|].
      unfold set_mem, items_mem. cbn [existsb item_mem]. rewrite Hc. reflexivity.
    - apply (matches_mono (MNr DIGIT (length rest))); [|apply digits_MN; exact Hrest].
      intros s i j Hn. unfold Mr, MNr in *.
      apply MRep with (n := length rest); [lia|exact I|exact Hn].
  Qed.

  Lemma page_matches page_rest p :
    page_ok p -> matches (Mr (Group 4 (Alt (Rep 1 None DIGIT) page_rest))) p.
  Proof.
    intros [Hne Hp].
    apply (matches_mono (MNr DIGIT (length p))); [|apply digits_MN; exact Hp].
    intros s i j Hn. unfold Mr, MNr in *.
    apply MGroup, MAltL. apply MRep with (n := length p); [|exact I|exact Hn].
    destruct p; [congruence|cbn [length]; lia].
  Qed.

  Lemma comma_matches comma : comma = [] \/ comma = [44%N] -> matches (Mr COMMA_OPT) comma.
  Proof.
    intros [->| ->]; unfold COMMA_OPT.
    - apply matches_nil. intros s i Hi. unfold Mr.
      apply MRep with (n := 0); [lia|lia|apply MN0; exact Hi].
    - apply matches_char. intros s i Hn. unfold Mr.
      assert (Hlt : i < length s) by (apply nth_error_Some; congruence).
      apply MRep with (n := 1); [lia|lia|].
      eapply MNS; [eapply MLit; [exact Hn|apply lit_mem_refl]|apply MN0; lia].
  Qed.

  Lemma sep_matches (short : bool) :
    matches (Mr (if short then AT_SEP else SPC)) (if short then [32; 97; 116; 32]%N else [32%N]).
  Proof.
    destruct short.
    - unfold AT_SEP. apply lits_matches.
    - unfold SPC. apply lit_matches.
  Qed.

  Lemma cat_matches a b wa wb :
    matches (Mr a) wa -> matches (Mr b) wb -> matches (Mr (Cat a b)) (wa ++ wb).
  Proof.
    intros Ha Hb. apply (matches_seq (Mr a) (Mr b)); try assumption.
    intros s i j k H1 H2. unfold Mr in *. eapply MCat; eassumption.
  Qed.

  Lemma group_matches n r w : matches (Mr r) w -> matches (Mr (Group n r)) w.
  Proof.
    apply matches_mono. intros s i j H. unfold Mr in *. apply MGroup; exact H.
  Qed.

  Lemma body_matches alts page_rest short v R comma p :
    accepts U alts R = true -> volume_ok v -> page_ok p -> (comma = [] \/ comma = [44%N]) ->
    matches (Mr (body_tpl alts page_rest short)) (written v R comma short p).
  Proof.
    intros HR Hv Hp Hc. unfold body_tpl, written.
    apply cat_matches; [apply group_matches, volume_matches; exact Hv|].
    apply cat_matches; [apply lit_matches|].
    apply cat_matches; [apply group_matches, accepts_matches; exact HR|].
    apply cat_matches; [apply comma_matches; exact Hc|].
    apply cat_matches; [apply sep_matches|].
    apply page_matches; exact Hp.
  Qed.

  Lemma bnd_set_mem c : is_ascii_alnum c = false ->
    set_mem U false true [SRange 97 122; SRange 65 90; SRange 48 57] c = true.
  Proof.
    unfold is_ascii_alnum, set_mem, items_mem. cbn [existsb item_mem].
    destruct (48 <=? c)%N, (c <=? 57)%N, (65 <=? c)%N, (c <=? 90)%N, (97 <=? c)%N, (c <=? 122)%N;
      cbn [andb orb xorb negb]; congruence.
  Qed.

  (* a word spanned by P, placed between a neutral left and right context *)
  Lemma wrap : forall (body : re) pre core post,
    matches (Mr body) core -> before_ok pre -> after_ok post ->
    let text := pre ++ core ++ post in
    M U false text body (length pre) (length pre + length core) /\
    exists a b, M U false text (Cat (Alt Bol BND) (Cat (Group 1 body) (Alt BND Eol))) a b /\
                (a <= length pre)%nat /\ (length pre + length core <= b)%nat /\
                (b <= a + length core + 2)%nat.
  Proof.
    intros body pre core post Hcore Hpre Hpost text.
    assert (Hlen : length text = length pre + length core + length post).
    { unfold text. rewrite !app_length. lia. }
    assert (Hbody : M U false text body (length pre) (length pre + length core)).
    { apply Hcore; [lia|]. unfold text. apply slice_mid. }
    split; [exact Hbody|].
    (* left boundary *)
    assert (HL : exists a, a <= length pre /\ length pre <= a + 1 /\
                           M U false text (Alt Bol BND) a (length pre)).
    { destruct Hpre as [Hnil|[a0 [c [Ea Hc]]]].
      - exists 0. rewrite Hnil. cbn [length]. split; [lia|]. split; [lia|].
        apply MAltL, MBol.
      - exists (length a0).
        assert (Hlp : length pre = S (length a0)).
        { rewrite Ea, app_length. cbn [length]. lia. }
        split; [lia|]. split; [lia|]. rewrite Hlp.
        apply MAltR. unfold BND. eapply MSet; [|apply bnd_set_mem; exact Hc].
        unfold text. rewrite Ea, <- app_assoc. cbn [app]. apply nth_mid. }
    (* right boundary *)
    assert (HR : exists b, length pre + length core <= b /\ b <= length pre + length core + 1 /\
                           M U false text (Alt BND Eol) (length pre + length core) b).
    { destruct Hpost as [Hnil|[c [b0 [Eb Hc]]]].
      - exists (length pre + length core). split; [lia|]. split; [lia|].
        assert (Hl2 : length text = length pre + length core).
        { rewrite Hlen, Hnil. cbn [length]. lia. }
        apply MAltR, MEol; [lia|]. unfold at_eol. rewrite Hl2, Nat.eqb_refl. reflexivity.
      - exists (S (length pre + length core)). split; [lia|]. split; [lia|].
        apply MAltL. unfold BND. eapply MSet; [|apply bnd_set_mem; exact Hc].
        unfold text. rewrite Eb, app_assoc, <- app_length. apply nth_mid. }
    destruct HL as [a [Ha1 [Ha2 HLm]]]. destruct HR as [b [Hb1 [Hb2 HRm]]].
    exists a, b. split; [|lia].
    eapply MCat; [exact HLm|]. eapply MCat; [apply MGroup; exact Hbody|exact HRm].
  Qed.

  Theorem full_cite_recognised : forall alts page_rest short pre v R comma p post,
    accepts U alts R = true -> volume_ok v -> page_ok p ->
    (comma = [] \/ comma = [44%N]) -> before_ok pre -> after_ok post ->
    let core := written v R comma short p in
    let text := pre ++ core ++ post in
    (* the body of group 1 matches exactly the written citation ... *)
    M U false text (body_tpl alts page_rest short) (length pre) (length pre + length core) /\
    (* ... and the whole pattern matches around it *)
    exists a b, M U false text (full_cite_tpl alts page_rest short) a b /\
                (a <= length pre)%nat /\ (length pre + length core <= b)%nat /\ (b <= a + length core + 2)%nat.
  Proof.
    intros alts page_rest short pre v R comma p post HR Hv Hp Hc Hpre Hpost core text.
    unfold full_cite_tpl.
    apply (wrap (body_tpl alts page_rest short) pre core post); try assumption.
    unfold core. apply body_matches; assumption.
  Qed.
End S.

Print Assumptions ends_sound.
Print Assumptions accepts_sound.
Print Assumptions full_cite_recognised.
