(* Regex/MatchSound.v -- soundness of the executable backtracking matcher of
   Regex/Match.v with respect to the declarative relation M of Regex/Decl.v:
   every successful run ends in a successful continuation call at the end of a
   declarative match, captures lie inside the matched span, and `search`
   reports the leftmost position at which the matcher succeeds.

   NOTE on the side condition `i <= length s`.  The statements
       m U ci s r i c k = Some res -> exists j c', M U ci s r i j /\ ...
   are FALSE without it for the definitions as written: take s = [], r = Eps,
   i = 1, k = fun j c => Some (j, c).  Then m U ci [] Eps 1 [] k = Some (1, [])
   but M U ci [] Eps 1 j needs 1 <= length [] (constructor MEps).  (Same for
   WordB, Rep 0 _ _, Look Eps.)  The counterexample is proved below
   (m_sound_needs_bound).  The start position is therefore assumed to lie inside
   the text (hypothesis Hi : i <= length s) in m_sound, m_caps and
   match_at_sound; search_sound needs no extra hypothesis because search_from
   only tries positions <= length s. *)
From EV Require Import Base.Str Regex.Syntax Regex.Decl Regex.Match.

Section S.
  Variable U : utables.
  Variable ci : bool.
  Variable s : str.

  (* ---- bounds of declarative matches ---- *)

  Lemma nth_error_lt : forall (i : nat) (x : N), nth_error s i = Some x -> i < length s.
  Proof. intros i x H. apply nth_error_Some. congruence. Qed.

  Lemma M_MN_bounds :
    (forall r i j, M U ci s r i j -> i <= j /\ j <= length s) /\
    (forall r n i j, MN U ci s r n i j -> i <= j /\ j <= length s).
  Proof.
    apply M_MN_ind; intros;
      repeat match goal with
             | H : nth_error s _ = Some _ |- _ => apply nth_error_lt in H
             end; lia.
  Qed.

  Lemma M_bounds : forall r i j, M U ci s r i j -> i <= j /\ j <= length s.
  Proof. exact (proj1 M_MN_bounds). Qed.

  Lemma MN_bounds : forall r n i j, MN U ci s r n i j -> i <= j /\ j <= length s.
  Proof. exact (proj2 M_MN_bounds). Qed.

  (* ---- the capture span contract ---- *)

  Definition caps_ok (c c' : caps) (i j : nat) : Prop :=
    forall n a b, In (n, (a, b)) c' -> In (n, (a, b)) c \/ (i <= a /\ a <= b /\ b <= j).

  Lemma caps_ok_refl : forall c i j, caps_ok c c i j.
  Proof. intros c i j n a b H. left. exact H. Qed.

  Lemma caps_ok_trans : forall c c1 c2 i j1 j,
    i <= j1 -> j1 <= j ->
    caps_ok c c1 i j1 -> caps_ok c1 c2 j1 j -> caps_ok c c2 i j.
  Proof.
    intros c c1 c2 i j1 j Hij1 Hj1j H1 H2 n a b Hin.
    destruct (H2 n a b Hin) as [Hin1|Hsp].
    - destruct (H1 n a b Hin1) as [Hin0|Hsp].
      + left. exact Hin0.
      + right. lia.
    - right. lia.
  Qed.

  (* the specification of a matcher body (statement of m_caps for a fixed pattern) *)
  Definition body_ok (r : re) (body : nat -> caps -> K -> option mresult) : Prop :=
    forall i c k res, i <= length s -> body i c k = Some res ->
      exists j c', M U ci s r i j /\ k j c' = Some res /\ caps_ok c c' i j.

  (* ---- the repetition loop ---- *)

  (* `count <= h` is an invariant of the loop (it starts at 0 and is only incremented under
     `count <? h`); without it the fallback branch could return with count > h *)
  Lemma rep_sound : forall r body lo hi, body_ok r body ->
    forall fuel count last i c k res, i <= length s ->
      match hi with Some h => count <= h | None => True end ->
      rep body lo hi fuel count last i c k = Some res ->
      exists n j c', MN U ci s r n i j /\ lo <= count + n /\
        match hi with Some h => count + n <= h | None => True end /\
        k j c' = Some res /\ caps_ok c c' i j.
  Proof.
    intros r body lo hi Hbody fuel.
    induction fuel as [|f IHf]; intros count last i c k res Hi Hcnt Hrep.
    - cbn [rep] in Hrep. discriminate.
    - cbn [rep] in Hrep.
      (* the fallback branch: zero further iterations *)
      assert (Hfall : (if (lo <=? count)%nat then k i c else None) = Some res ->
        exists n j c', MN U ci s r n i j /\ lo <= count + n /\
          match hi with Some h => count + n <= h | None => True end /\
          k j c' = Some res /\ caps_ok c c' i j).
      { intros Hf.
        destruct (Nat.leb_spec lo count) as [Hle|Hgt]; [|discriminate].
        exists 0, i, c. split; [|split; [|split; [|split]]].
        - apply MN0. exact Hi.
        - lia.
        - destruct hi as [h|]; [lia|exact I].
        - exact Hf.
        - apply caps_ok_refl. }
      match type of Hrep with
      | match (if ?g then _ else _) with _ => _ end = _ => destruct g eqn:Hg
      end; [|apply Hfall; exact Hrep].
      apply andb_true_iff in Hg. destruct Hg as [Hg _].
      match type of Hrep with
      | match ?e with _ => _ end = _ => destruct e as [r0|] eqn:Hb
      end; [|apply Hfall; exact Hrep].
      (* the `more` branch: one iteration, then the rest of the loop *)
      injection Hrep as Hrep. subst r0. clear Hfall.
      assert (Hcnt' : match hi with Some h => S count <= h | None => True end).
      { destruct hi as [h|]; [apply Nat.ltb_lt in Hg; lia|exact I]. }
      destruct (Hbody _ _ _ _ Hi Hb) as [j1 [c1 [HM1 [Hk1 Hc1]]]].
      destruct (M_bounds _ _ _ HM1) as [Hij1 Hj1].
      destruct (IHf _ _ _ _ _ _ Hj1 Hcnt' Hk1) as [n [j [c' [HMN [Hlo [Hhi [Hk Hc]]]]]]].
      destruct (MN_bounds _ _ _ _ HMN) as [Hj1j Hj].
      exists (S n), j, c'. split; [|split; [|split; [|split]]].
      + eapply MNS; eassumption.
      + lia.
      + destruct hi as [h|]; [lia|exact I].
      + exact Hk.
      + eapply caps_ok_trans; eassumption.
  Qed.

  (* ---- the matcher ---- *)

  Lemma m_body_ok : forall r, body_ok r (fun i c k => m U ci s r i c k).
  Proof.
    unfold body_ok.
    induction r as [| |ch|ch| |neg items| | | |a IHa b IHb|a IHa b IHb|g r' IHr|lo hi r' IHr|r' IHr];
      intros i c k res Hi Hm; cbn [m] in Hm.
    - (* Eps *)
      exists i, c. split; [apply MEps; exact Hi|]. split; [exact Hm|apply caps_ok_refl].
    - discriminate.
    - (* Lit *)
      destruct (nth_error s i) as [x|] eqn:Hx; [|discriminate].
      destruct (lit_mem U ci ch x) eqn:Hl; [|discriminate].
      exists (S i), c. split; [eapply MLit; eassumption|]. split; [exact Hm|apply caps_ok_refl].
    - (* NotLit *)
      destruct (nth_error s i) as [x|] eqn:Hx; [|discriminate].
      destruct (lit_mem U ci ch x) eqn:Hl; [discriminate|].
      exists (S i), c. split; [eapply MNotLit; eassumption|]. split; [exact Hm|apply caps_ok_refl].
    - (* Any *)
      destruct (nth_error s i) as [x|] eqn:Hx; [|discriminate].
      destruct (N.eqb x 10) eqn:Hl; [discriminate|].
      exists (S i), c. split; [eapply MAny; eassumption|]. split; [exact Hm|apply caps_ok_refl].
    - (* Set_ *)
      destruct (nth_error s i) as [x|] eqn:Hx; [|discriminate].
      destruct (set_mem U ci neg items x) eqn:Hl; [|discriminate].
      exists (S i), c. split; [eapply MSet; eassumption|]. split; [exact Hm|apply caps_ok_refl].
    - (* Bol *)
      destruct (Nat.eqb_spec i 0) as [Hi0|Hn]; [|discriminate]. subst i.
      exists 0, c. split; [apply MBol|]. split; [exact Hm|apply caps_ok_refl].
    - (* Eol *)
      destruct (at_eol s i) eqn:He; [|discriminate].
      exists i, c. split; [apply MEol; assumption|]. split; [exact Hm|apply caps_ok_refl].
    - (* WordB *)
      destruct (word_boundary U s i) eqn:He; [|discriminate].
      exists i, c. split; [apply MWordB; assumption|]. split; [exact Hm|apply caps_ok_refl].
    - (* Cat *)
      destruct (IHa _ _ _ _ Hi Hm) as [j1 [c1 [HMa [Hk1 Hc1]]]].
      destruct (M_bounds _ _ _ HMa) as [Hij1 Hj1].
      destruct (IHb _ _ _ _ Hj1 Hk1) as [j [c' [HMb [Hk Hc]]]].
      destruct (M_bounds _ _ _ HMb) as [Hj1j Hj].
      exists j, c'. split; [eapply MCat; eassumption|]. split; [exact Hk|].
      eapply caps_ok_trans; eassumption.
    - (* Alt *)
      destruct (m U ci s a i c k) as [r0|] eqn:Ha.
      + injection Hm as Hm. subst r0.
        destruct (IHa _ _ _ _ Hi Ha) as [j [c' [HM [Hk Hc]]]].
        exists j, c'. split; [apply MAltL; exact HM|]. split; assumption.
      + destruct (IHb _ _ _ _ Hi Hm) as [j [c' [HM [Hk Hc]]]].
        exists j, c'. split; [apply MAltR; exact HM|]. split; assumption.
    - (* Group *)
      destruct (IHr _ _ _ _ Hi Hm) as [j [c1 [HM [Hk Hc]]]].
      destruct (M_bounds _ _ _ HM) as [Hij Hj].
      exists j, ((g, (i, j)) :: c1). split; [apply MGroup; exact HM|]. split; [exact Hk|].
      intros n a b [Heq|Hin].
      + injection Heq as Hn Ha Hb. subst. right. lia.
      + apply Hc. exact Hin.
    - (* Rep *)
      assert (H0 : match hi with Some h => 0 <= h | None => True end).
      { destruct hi as [h|]; [lia|exact I]. }
      destruct (rep_sound r' _ lo hi IHr _ _ _ _ _ _ _ Hi H0 Hm)
        as [n [j [c' [HMN [Hlo [Hhi [Hk Hc]]]]]]].
      exists j, c'. split; [|split; assumption].
      eapply MRep; [| |exact HMN].
      + lia.
      + destruct hi as [h|]; [lia|exact I].
    - (* Look *)
      destruct (m U ci s r' i c (fun j c' => Some (j, c'))) as [r0|] eqn:Hin; [|discriminate].
      destruct (IHr _ _ _ _ Hi Hin) as [j [c' [HM _]]].
      exists i, c. split; [eapply MLook; exact HM|]. split; [exact Hm|apply caps_ok_refl].
  Qed.

  (* span contract of captures: every capture present at the continuation was present before or
     lies inside the matched span *)
  Theorem m_caps : forall r i c k res,
    i <= length s ->
    m U ci s r i c k = Some res ->
    exists j c', M U ci s r i j /\ k j c' = Some res /\
      forall n a b, In (n, (a, b)) c' -> In (n, (a, b)) c \/ (i <= a /\ a <= b /\ b <= j).
  Proof. intros r i c k res Hi Hm. exact (m_body_ok r i c k res Hi Hm). Qed.

  (* every successful run of the matcher ends in a successful continuation call at the end of a
     declarative match *)
  Theorem m_sound : forall r i c k res,
    i <= length s ->
    m U ci s r i c k = Some res -> exists j c', M U ci s r i j /\ k j c' = Some res.
  Proof.
    intros r i c k res Hi Hm.
    destruct (m_caps r i c k res Hi Hm) as [j [c' [HM [Hk _]]]].
    exists j, c'. split; assumption.
  Qed.

  Theorem match_at_sound : forall r i j c,
    i <= length s ->
    match_at U ci s r i = Some (j, c) ->
    M U ci s r i j /\ forall n a b, In (n, (a, b)) c -> i <= a /\ a <= b /\ b <= j.
  Proof.
    intros r i j c Hi Hm. unfold match_at in Hm.
    destruct (m_caps r i [] _ _ Hi Hm) as [j' [c' [HM [Hk Hc]]]].
    injection Hk as Hj Hc'. subst j' c'.
    split; [exact HM|].
    intros n a b Hin. destruct (Hc n a b Hin) as [[]|Hsp]. exact Hsp.
  Qed.

  Lemma search_from_sound : forall r fuel i0 i j c,
    i0 <= length s ->
    search_from U ci s r fuel i0 = Some (i, j, c) ->
    i0 <= i /\ i <= length s /\ match_at U ci s r i = Some (j, c) /\
    forall i', i0 <= i' -> i' < i -> match_at U ci s r i' = None.
  Proof.
    intros r fuel. induction fuel as [|f IHf]; intros i0 i j c Hi0 Hs; cbn [search_from] in Hs.
    - discriminate.
    - destruct (match_at U ci s r i0) as [[j0 c0]|] eqn:Hm.
      + injection Hs as Hi Hj Hc. subst i j0 c0.
        split; [lia|]. split; [exact Hi0|]. split; [exact Hm|].
        intros i' H1 H2. lia.
      + destruct (Nat.ltb_spec i0 (length s)) as [Hlt|Hge]; [|discriminate].
        destruct (IHf (S i0) i j c Hlt Hs) as [Hle [Hil [Hmi Hnone]]].
        split; [lia|]. split; [exact Hil|]. split; [exact Hmi|].
        intros i' H1 H2.
        destruct (Nat.eq_dec i' i0) as [Heq|Hne].
        * subst i'. exact Hm.
        * apply Hnone; lia.
  Qed.

  (* re.search: the reported span is a match, the start is the leftmost position at which the
     matcher succeeds, and the span and captures lie inside the text *)
  Theorem search_sound : forall r i j c,
    search U ci s r = Some (i, j, c) ->
    M U ci s r i j /\ i <= j /\ j <= length s /\
    (forall n a b, In (n, (a, b)) c -> i <= a /\ a <= b /\ b <= j) /\
    (forall i', i' < i -> match_at U ci s r i' = None).
  Proof.
    intros r i j c Hs. unfold search in Hs.
    destruct (search_from_sound r _ 0 i j c (Nat.le_0_l _) Hs) as [_ [Hil [Hm Hnone]]].
    destruct (match_at_sound r i j c Hil Hm) as [HM Hc].
    destruct (M_bounds _ _ _ HM) as [Hij Hj].
    split; [exact HM|]. split; [exact Hij|]. split; [exact Hj|]. split; [exact Hc|].
    intros i' Hlt. apply Hnone; lia.
  Qed.
End S.

(* the side condition `i <= length s` of m_sound / m_caps / match_at_sound cannot be dropped *)
Lemma m_sound_needs_bound : forall U ci,
  m U ci [] Eps 1 [] (fun j c => Some (j, c)) = Some (1, []) /\
  ~ exists j, M U ci [] Eps 1 j.
Proof.
  intros U ci. split; [reflexivity|].
  intros [j HM]. inversion HM as [i Hle| | | | | | | | | | | | |]; subst. cbn in Hle. lia.
Qed.

Print Assumptions m_sound.
Print Assumptions m_caps.
Print Assumptions match_at_sound.
Print Assumptions search_sound.
Print Assumptions m_sound_needs_bound.
