(* Regex/Shape.v -- kernel-side recogniser of the "$full_cite" template family of
   reporters-db (C01):  BND ( (volume) SP (reporter: ALTS) ,? SP [at SP] (page: PAGE) ) BND
   and a small matcher `ends` for the star-free fragment in which reporter
   alternatives are written, used to check by reflection that every reporter
   string registered for an extractor is in the language of its reporter group. *)
From EV Require Import Base.Str Regex.Syntax.

Definition BND : re := Set_ true [SRange 97 122; SRange 65 90; SRange 48 57].
Definition DIGIT : re := Set_ false [SCat CDigit].
Definition VOLUME : re := Cat (Set_ false [SRange 49 57]) (Rep 0 None DIGIT).
Definition SPC : re := Lit 32.
Definition AT_SEP : re := lits [32; 97; 116; 32]%N.     (* " at " *)
Definition COMMA_OPT : re := Rep 0 (Some 1) (Lit 44).

(* the template, as a function of the reporter alternatives and the rest of the page pattern *)
Definition body_tpl (alts page_rest : re) (short : bool) : re :=
  Cat (Group 2 VOLUME)
      (Cat SPC
           (Cat (Group 3 alts)
                (Cat COMMA_OPT
                     (Cat (if short then AT_SEP else SPC)
                          (Group 4 (Alt (Rep 1 None DIGIT) page_rest)))))).

Definition full_cite_tpl (alts page_rest : re) (short : bool) : re :=
  Cat (Alt Bol BND) (Cat (Group 1 (body_tpl alts page_rest short)) (Alt BND Eol)).

(* recogniser: Some (alts, page_rest, short) when r is syntactically the template *)
Definition shape (r : re) : option (re * re * bool) :=
  match r with
  | Cat _ (Cat (Group _ (Cat _ (Cat _ (Cat (Group _ alts) (Cat _ (Cat sep (Group _ (Alt _ page_rest)))))))) _) =>
      let short := re_eqb sep AT_SEP in
      if re_eqb r (full_cite_tpl alts page_rest short) then Some (alts, page_rest, short) else None
  | _ => None
  end.

(* ---- matcher for the star-free fragment: all remainders after matching a prefix ---- *)
(* case-sensitive; anchors, look-ahead and unbounded repetition are outside the
   fragment (no remainder is returned for them, i.e. "not known to match") *)
Section Ends.
  Variable U : utables.

  Fixpoint rep_ends (body : str -> list str) (n : nat) (s : str) : list str :=
    (* zero to n iterations *)
    match n with
    | O => [s]
    | S k => s :: flat_map (rep_ends body k) (body s)
    end.

  Fixpoint iter_ends (body : str -> list str) (n : nat) (s : str) : list str :=
    (* exactly n iterations *)
    match n with
    | O => [s]
    | S k => flat_map (iter_ends body k) (body s)
    end.

  Fixpoint ends (r : re) (s : str) : list str :=
    match r with
    | Eps => [s]
    | Fail => []
    | Lit c => match s with x :: t => if lit_mem U false c x then [t] else [] | [] => [] end
    | NotLit c => match s with x :: t => if lit_mem U false c x then [] else [t] | [] => [] end
    | Any => match s with x :: t => if N.eqb x 10 then [] else [t] | [] => [] end
    | Set_ neg items => match s with x :: t => if set_mem U false neg items x then [t] else [] | [] => [] end
    | Cat a b => flat_map (ends b) (ends a s)
    | Alt a b => ends a s ++ ends b s
    | Group _ r' => ends r' s
    | Rep lo (Some hi) r' =>
        if (lo <=? hi)%nat then flat_map (rep_ends (ends r') (hi - lo)) (iter_ends (ends r') lo s) else []
    | Rep _ None _ => []
    | Bol | Eol | WordB | Look _ => []
    end.

  (* r matches the whole string w *)
  Definition accepts (r : re) (w : str) : bool :=
    existsb (fun rest => match rest with [] => true | _ => false end) (ends r w).
End Ends.

(* per-row check: every registered string is accepted by the reporter group of a recognised extractor *)
Definition row_shape_ok (U : utables) (r : re) (strings : list str) : bool :=
  match shape r with
  | Some (alts, _, _) => forallb (accepts U alts) strings
  | None => true
  end.
Definition row_recognised (r : re) : bool := match shape r with Some _ => true | None => false end.
