(* Regex/Decl.v -- declarative semantics of the pattern language:
   M s r i j  =  "pattern r matches the text s from position i to position j".
   Independent of backtracking priorities; every match Python's engine reports
   is assumed to have a derivation (trusted; exercised by the regex stream). *)
From EV Require Import Base.Str Regex.Syntax.

Section Decl.
  Variable U : utables.
  Variable ci : bool.         (* re.IGNORECASE *)

  Definition is_word_at (s : str) (i : nat) : bool :=
    match nth_error s i with Some c => cat_mem U CWord c | None => false end.

  (* \b at position i: the "word-ness" of the characters before and after differ *)
  Definition word_boundary (s : str) (i : nat) : bool :=
    let before := match i with O => false | S k => is_word_at s k end in
    xorb before (is_word_at s i).

  (* $ without MULTILINE: at the end, or just before a final newline *)
  Definition at_eol (s : str) (i : nat) : bool :=
    Nat.eqb i (length s) ||
    (Nat.eqb (S i) (length s) && match nth_error s i with Some c => N.eqb c 10 | None => false end).

  Inductive M (s : str) : re -> nat -> nat -> Prop :=
  | MEps : forall i, i <= length s -> M s Eps i i
  | MLit : forall c i x, nth_error s i = Some x -> lit_mem U ci c x = true -> M s (Lit c) i (S i)
  | MNotLit : forall c i x, nth_error s i = Some x -> lit_mem U ci c x = false -> M s (NotLit c) i (S i)
  | MAny : forall i x, nth_error s i = Some x -> N.eqb x 10 = false -> M s Any i (S i)
  | MSet : forall neg items i x, nth_error s i = Some x -> set_mem U ci neg items x = true ->
                                 M s (Set_ neg items) i (S i)
  | MBol : M s Bol 0 0
  | MEol : forall i, i <= length s -> at_eol s i = true -> M s Eol i i
  | MWordB : forall i, i <= length s -> word_boundary s i = true -> M s WordB i i
  | MCat : forall a b i j k, M s a i j -> M s b j k -> M s (Cat a b) i k
  | MAltL : forall a b i j, M s a i j -> M s (Alt a b) i j
  | MAltR : forall a b i j, M s b i j -> M s (Alt a b) i j
  | MGroup : forall n r i j, M s r i j -> M s (Group n r) i j
  | MRep : forall lo hi r n i j,
      lo <= n -> match hi with Some h => n <= h | None => True end ->
      MN s r n i j -> M s (Rep lo hi r) i j
  | MLook : forall r i j, M s r i j -> M s (Look r) i i
  (* n consecutive matches of r *)
  with MN (s : str) : re -> nat -> nat -> nat -> Prop :=
  | MN0 : forall r i, i <= length s -> MN s r 0 i i
  | MNS : forall r n i j k, M s r i j -> MN s r n j k -> MN s r (S n) i k.

  Scheme M_ind2 := Minimality for M Sort Prop
    with MN_ind2 := Minimality for MN Sort Prop.
  Combined Scheme M_MN_ind from M_ind2, MN_ind2.
End Decl.
