(* Regex/Literal.v -- required-literal analysis (the Aho-Corasick pre-filter of
   C13): from a pattern, a condition "the (normalised) matched text contains
   these literals", in the style of RE2's prefilter: exact sets are kept as
   long as they stay small, a set of possible prefixes is carried through
   right-nested concatenations, everything else becomes a positive boolean
   combination of "contains literal" atoms. *)
From EV Require Import Base.Str Regex.Syntax.

Inductive cond := CTrue | CFalse | CAtom (s : str) | CAnd (a b : cond) | COr (a b : cond).

Inductive info :=
| Exact (ws : list str)               (* the normalised match is one of ws *)
| Pre (pre : list str) (c : cond).    (* it starts with one of pre, and satisfies c *)

Fixpoint holds (c : cond) (t : str) : Prop :=
  match c with
  | CTrue => True
  | CFalse => False
  | CAtom s => infix s t
  | CAnd a b => holds a t /\ holds b t
  | COr a b => holds a t \/ holds b t
  end.

Definition sem (i : info) (t : str) : Prop :=
  match i with
  | Exact ws => In t ws
  | Pre pre c => (exists p r, t = p ++ r /\ In p pre) /\ holds c t
  end.

Fixpoint ors (ws : list str) : cond :=
  match ws with
  | [] => CFalse
  | [w] => CAtom w
  | w :: ws' => COr (CAtom w) (ors ws')
  end.

Definition flush (i : info) : cond :=
  match i with
  | Exact ws => ors ws
  | Pre pre c => CAnd (ors pre) c
  end.

Definition prefs (i : info) : list str :=
  match i with Exact ws => ws | Pre pre _ => pre end.

Definition cross (a b : list str) : list str :=
  flat_map (fun x => map (fun y => x ++ y) b) a.

Definition BOUND : nat := 4096.

Definition combine (x y : info) : info :=
  match x, y with
  | Exact a, Exact b =>
      if (length a * length b <=? BOUND)%nat then Exact (cross a b) else Pre a (ors b)
  | Exact a, Pre pb cb =>
      if (length a * length pb <=? BOUND)%nat then Pre (cross a pb) cb
      else Pre a (CAnd (ors pb) cb)
  | Pre pa ca, _ => Pre pa (CAnd ca (flush y))
  end.

Definition alt (x y : info) : info :=
  match x, y with
  | Exact a, Exact b => Exact (a ++ b)
  | _, _ => Pre (prefs x ++ prefs y) (COr (flush x) (flush y))
  end.

Definition no_info : info := Pre [[]] CTrue.

Section Analyse.
  Variable U : utables.
  Variable ci : bool.
  (* str.lower() of one character, as a string (multi-character expansions
     included); generated from the interpreter.  SIGMA (U+03A3) lowers
     context-dependently and is never treated as exact. *)
  Variable lower1 : N -> str.
  (* characters assumed absent from the text (empty for the full-strength
     theorem; the offending case variants for the partial one) *)
  Variable absent : N -> bool.

  Definition SIGMA : N := 931%N.

  (* the characters a literal can match *)
  Definition lit_class (c : N) : list N :=
    if ci then filter (fun x => negb (absent x)) (c :: u_fold U c) else [c].

  (* normalised images of a literal, if every member of its class has a
     context-free lowercase *)
  Definition lit_info (c : N) : info :=
    if ci then
      let cls := lit_class c in
      if existsb (N.eqb SIGMA) cls then no_info
      else Exact (map lower1 cls)
    else Exact [[c]].

  Definition set_info (neg : bool) (items : list setitem) : info :=
    if ci || neg then no_info
    else
      if (length items <=? 8)%nat &&
         forallb (fun it => match it with SLit _ => true | _ => false end) items
      then Exact (map (fun it => match it with SLit c => [c] | _ => [] end) items)
      else no_info.

  Fixpoint analyse (r : re) : info :=
    match r with
    | Eps => Exact [[]]
    | Fail => Exact []
    | Lit c => lit_info c
    | NotLit _ | Any => no_info
    | Set_ neg items => set_info neg items
    | Bol | Eol | WordB => Exact [[]]
    | Look _ => Exact [[]]
    | Cat a b => combine (analyse a) (analyse b)
    | Alt a b => alt (analyse a) (analyse b)
    | Group _ r' => analyse r'
    | Rep lo hi r' =>
        match lo, hi with
        | 1%nat, Some 1%nat => analyse r'
        | O, Some 1%nat =>
            match analyse r' with
            | Exact ws => Exact ([] :: ws)
            | Pre _ _ => no_info
            end
        | O, _ => no_info
        | S _, _ => let i := analyse r' in Pre (prefs i) (flush i)
        end
    end.
End Analyse.

(* does the condition imply that one of the literals occurs? *)
Fixpoint implies_any (lits : list str) (c : cond) : bool :=
  match c with
  | CTrue => false
  | CFalse => true
  | CAtom s => existsb (fun l => infixb l s) lits
  | CAnd a b => implies_any lits a || implies_any lits b
  | COr a b => implies_any lits a && implies_any lits b
  end.

(* the per-extractor check of C13 *)
Definition literal_check (U : utables) (ci : bool) (lower1 : N -> str) (absent : N -> bool)
           (r : re) (lits : list str) : bool :=
  implies_any lits (flush (analyse U ci lower1 absent r)).

(* ---- normalisation of the text: Python's str.lower() ---- *)
(* case-sensitive extractors see the text itself; case-insensitive ones see
   text.lower(): every character is replaced by lower1, except SIGMA whose
   image depends on context (either small sigma) *)
Definition lower_char_ok (lower1 : N -> str) (c : N) (out : str) : Prop :=
  out = lower1 c \/ (c = SIGMA /\ (out = [963%N] \/ out = [962%N])).

Definition NormOf (ci : bool) (lower1 : N -> str) (s t : str) : Prop :=
  if ci then exists outs, Forall2 (lower_char_ok lower1) s outs /\ t = concat outs
  else t = s.
