(* Regex/DeclCapSound.v -- the declarative semantics with captures (Regex/DeclCap.v: MC):
   it refines M, the matcher of Regex/Match.v is sound for it, the static analyses of DeclCap.v
   are sound against it, and `always_matches` patterns make the matcher total. *)
From EV Require Import Base.Str Regex.Syntax Regex.Decl Regex.Match Regex.MatchSound Regex.DeclCap.

(* ---- capture lists ---- *)
Lemma cap_get_app : forall n p q,
  cap_get n (p ++ q) = match cap_get n p with Some sp => Some sp | None => cap_get n q end.
Proof.
  intros n p q. induction p as [|[k sp] p IH]; cbn [app cap_get]; [reflexivity|].
  destruct (Nat.eqb n k); [reflexivity|exact IH].
Qed.

Lemma app_self_nil {A} : forall (c pre : list A), c = pre ++ c -> pre = [].
Proof. intros c pre H. apply (app_inv_tail c). cbn [app]. symmetry. exact H. Qed.

Lemma split2 {A} : forall (c c1 c2 pre : list A),
  (exists pa, c1 = pa ++ c) -> (exists pb, c2 = pb ++ c1) -> c2 = pre ++ c ->
  exists pa pb, c1 = pa ++ c /\ c2 = pb ++ c1 /\ pre = pb ++ pa.
Proof.
  intros c c1 c2 pre [pa Ha] [pb Hb] H. exists pa, pb. split; [exact Ha|]. split; [exact Hb|].
  apply (app_inv_tail c). rewrite <- H, Hb, Ha. rewrite app_assoc. reflexivity.
Qed.

Section S.
  Variable U : utables.
  Variable ci : bool.
  Variable s : str.

  (* ---- 1. MC refines M; captures only grow, new spans inside the match ---- *)
  Lemma MC_MCN_M :
    (forall r i c j c', MC U ci s r i c j c' -> M U ci s r i j) /\
    (forall r n i c j c', MCN U ci s r n i c j c' -> MN U ci s r n i j).
  Proof.
    apply MC_MCN_ind; intros.
    - apply MEps; assumption.
    - eapply MLit; eassumption.
    - eapply MNotLit; eassumption.
    - eapply MAny; eassumption.
    - eapply MSet; eassumption.
    - apply MBol.
    - apply MEol; assumption.
    - apply MWordB; assumption.
    - eapply MCat; eassumption.
    - apply MAltL; assumption.
    - apply MAltR; assumption.
    - apply MGroup; assumption.
    - eapply MRep; eassumption.
    - eapply MLook; eassumption.
    - apply MN0; assumption.
    - eapply MNS; eassumption.
  Qed.

  Theorem MC_M : forall r i c j c', MC U ci s r i c j c' -> M U ci s r i j.
  Proof. exact (proj1 MC_MCN_M). Qed.

  Lemma MC_bounds : forall r i c j c', MC U ci s r i c j c' -> i <= j /\ j <= length s.
  Proof. intros r i c j c' H. exact (M_bounds U ci s r i j (MC_M _ _ _ _ _ H)). Qed.

  Definition grows (i : nat) (c : caps) (j : nat) (c' : caps) : Prop :=
    exists pre, c' = pre ++ c /\ forall n a b, In (n, (a, b)) pre -> i <= a /\ a <= b /\ b <= j.

  Lemma grows_refl : forall i c j, grows i c j c.
  Proof. intros i c j. exists []. split; [reflexivity|]. intros n a b []. Qed.

  Lemma grows_trans : forall i c j c1 k c2,
    i <= j -> j <= k -> grows i c j c1 -> grows j c1 k c2 -> grows i c k c2.
  Proof.
    intros i c j c1 k c2 Hij Hjk [pa [Ha Hsa]] [pb [Hb Hsb]].
    exists (pb ++ pa). split; [rewrite Hb, Ha, app_assoc; reflexivity|].
    intros n a b Hin. apply in_app_or in Hin. destruct Hin as [Hin|Hin].
    - specialize (Hsb n a b Hin). lia.
    - specialize (Hsa n a b Hin). lia.
  Qed.

  Lemma MC_MCN_grows :
    (forall r i c j c', MC U ci s r i c j c' -> grows i c j c') /\
    (forall r n i c j c', MCN U ci s r n i c j c' -> grows i c j c').
  Proof.
    apply MC_MCN_ind; try (intros; apply grows_refl).
    - (* Cat *)
      intros a b i j k c c1 c2 Ha IHa Hb IHb.
      destruct (MC_bounds _ _ _ _ _ Ha). destruct (MC_bounds _ _ _ _ _ Hb).
      eapply grows_trans; [| |exact IHa|exact IHb]; lia.
    - intros; assumption.
    - intros; assumption.
    - (* Group *)
      intros n r i j c c' H [pre [Hpre Hsp]].
      destruct (MC_bounds _ _ _ _ _ H) as [Hij Hj].
      exists ((n, (i, j)) :: pre). split; [rewrite Hpre; reflexivity|].
      intros n0 a b [Heq|Hin]; [injection Heq as _ <- <-; lia|exact (Hsp n0 a b Hin)].
    - intros; assumption.
    - (* NS *)
      intros r n i j k c c1 c2 H IH HN IHN.
      destruct (MC_bounds _ _ _ _ _ H).
      destruct (MN_bounds U ci s _ _ _ _ (proj2 MC_MCN_M _ _ _ _ _ _ HN)).
      eapply grows_trans; [| |exact IH|exact IHN]; lia.
  Qed.

  Theorem MC_grows : forall r i c j c', MC U ci s r i c j c' ->
    exists pre, c' = pre ++ c /\ forall n a b, In (n, (a, b)) pre -> i <= a /\ a <= b /\ b <= j.
  Proof. exact (proj1 MC_MCN_grows). Qed.

  Lemma MCN0_inv : forall r i c j c', MCN U ci s r 0 i c j c' -> j = i /\ c' = c.
  Proof. intros r i c j c' H. inversion H; subst. split; reflexivity. Qed.

  Lemma MC_pre : forall r i c j c', MC U ci s r i c j c' -> exists pre, c' = pre ++ c.
  Proof. intros r i c j c' H. destruct (MC_grows _ _ _ _ _ H) as [pre [Hp _]]. exists pre. exact Hp. Qed.

  Lemma MCN_pre : forall r n i c j c', MCN U ci s r n i c j c' -> exists pre, c' = pre ++ c.
  Proof.
    intros r n i c j c' H. destruct (proj2 MC_MCN_grows _ _ _ _ _ _ H) as [pre [Hp _]].
    exists pre. exact Hp.
  Qed.

  (* ---- 2. the matcher is sound for MC ---- *)
  Definition body_mc (r : re) (body : nat -> caps -> K -> option mresult) : Prop :=
    forall i c k res, i <= length s -> body i c k = Some res ->
      exists j c', MC U ci s r i c j c' /\ k j c' = Some res.

  Lemma rep_mc : forall r body lo hi, body_mc r body ->
    forall fuel count last i c k res, i <= length s ->
      match hi with Some h => count <= h | None => True end ->
      rep body lo hi fuel count last i c k = Some res ->
      exists n j c', MCN U ci s r n i c j c' /\ lo <= count + n /\
        match hi with Some h => count + n <= h | None => True end /\
        k j c' = Some res.
  Proof.
    intros r body lo hi Hbody fuel.
    induction fuel as [|f IHf]; intros count last i c k res Hi Hcnt Hrep.
    - cbn [rep] in Hrep. discriminate.
    - cbn [rep] in Hrep.
      assert (Hfall : (if (lo <=? count)%nat then k i c else None) = Some res ->
        exists n j c', MCN U ci s r n i c j c' /\ lo <= count + n /\
          match hi with Some h => count + n <= h | None => True end /\
          k j c' = Some res).
      { intros Hf.
        destruct (Nat.leb_spec lo count) as [Hle|Hgt]; [|discriminate].
        exists 0, i, c. split; [|split; [|split]].
        - apply CN0. exact Hi.
        - lia.
        - destruct hi as [h|]; [lia|exact I].
        - exact Hf. }
      match type of Hrep with
      | match (if ?g then _ else _) with _ => _ end = _ => destruct g eqn:Hg
      end; [|apply Hfall; exact Hrep].
      apply andb_true_iff in Hg. destruct Hg as [Hg _].
      match type of Hrep with
      | match ?e with _ => _ end = _ => destruct e as [r0|] eqn:Hb
      end; [|apply Hfall; exact Hrep].
      injection Hrep as Hrep. subst r0. clear Hfall.
      assert (Hcnt' : match hi with Some h => S count <= h | None => True end).
      { destruct hi as [h|]; [apply Nat.ltb_lt in Hg; lia|exact I]. }
      destruct (Hbody _ _ _ _ Hi Hb) as [j1 [c1 [HM1 Hk1]]].
      destruct (MC_bounds _ _ _ _ _ HM1) as [Hij1 Hj1].
      destruct (IHf _ _ _ _ _ _ Hj1 Hcnt' Hk1) as [n [j [c' [HMN [Hlo [Hhi Hk]]]]]].
      exists (S n), j, c'. split; [|split; [|split]].
      + eapply CNS; eassumption.
      + lia.
      + destruct hi as [h|]; [lia|exact I].
      + exact Hk.
  Qed.

  Lemma m_body_mc : forall r, body_mc r (fun i c k => m U ci s r i c k).
  Proof.
    unfold body_mc.
    induction r as [| |ch|ch| |neg items| | | |a IHa b IHb|a IHa b IHb|g r' IHr|lo hi r' IHr|r' IHr];
      intros i c k res Hi Hm; cbn [m] in Hm.
    - exists i, c. split; [apply CEps; exact Hi|exact Hm].
    - discriminate.
    - destruct (nth_error s i) as [x|] eqn:Hx; [|discriminate].
      destruct (lit_mem U ci ch x) eqn:Hl; [|discriminate].
      exists (S i), c. split; [eapply CLit; eassumption|exact Hm].
    - destruct (nth_error s i) as [x|] eqn:Hx; [|discriminate].
      destruct (lit_mem U ci ch x) eqn:Hl; [discriminate|].
      exists (S i), c. split; [eapply CNotLit; eassumption|exact Hm].
    - destruct (nth_error s i) as [x|] eqn:Hx; [|discriminate].
      destruct (N.eqb x 10) eqn:Hl; [discriminate|].
      exists (S i), c. split; [eapply CAny; eassumption|exact Hm].
    - destruct (nth_error s i) as [x|] eqn:Hx; [|discriminate].
      destruct (set_mem U ci neg items x) eqn:Hl; [|discriminate].
      exists (S i), c. split; [eapply CSet; eassumption|exact Hm].
    - destruct (Nat.eqb_spec i 0) as [Hi0|Hn]; [|discriminate]. subst i.
      exists 0, c. split; [apply CBol|exact Hm].
    - destruct (at_eol s i) eqn:He; [|discriminate].
      exists i, c. split; [apply CEol; assumption|exact Hm].
    - destruct (word_boundary U s i) eqn:He; [|discriminate].
      exists i, c. split; [apply CWordB; assumption|exact Hm].
    - (* Cat *)
      destruct (IHa _ _ _ _ Hi Hm) as [j1 [c1 [HMa Hk1]]].
      destruct (MC_bounds _ _ _ _ _ HMa) as [Hij1 Hj1].
      destruct (IHb _ _ _ _ Hj1 Hk1) as [j [c' [HMb Hk]]].
      exists j, c'. split; [eapply CCat; eassumption|exact Hk].
    - (* Alt *)
      destruct (m U ci s a i c k) as [r0|] eqn:Ha.
      + injection Hm as Hm. subst r0.
        destruct (IHa _ _ _ _ Hi Ha) as [j [c' [HM Hk]]].
        exists j, c'. split; [apply CAltL; exact HM|exact Hk].
      + destruct (IHb _ _ _ _ Hi Hm) as [j [c' [HM Hk]]].
        exists j, c'. split; [apply CAltR; exact HM|exact Hk].
    - (* Group *)
      destruct (IHr _ _ _ _ Hi Hm) as [j [c1 [HM Hk]]].
      exists j, ((g, (i, j)) :: c1). split; [apply CGroup; exact HM|exact Hk].
    - (* Rep *)
      assert (H0 : match hi with Some h => 0 <= h | None => True end).
      { destruct hi as [h|]; [lia|exact I]. }
      destruct (rep_mc r' _ lo hi IHr _ _ _ _ _ _ _ Hi H0 Hm)
        as [n [j [c' [HMN [Hlo [Hhi Hk]]]]]].
      exists j, c'. split; [|exact Hk].
      eapply CRep; [| |exact HMN].
      + lia.
      + destruct hi as [h|]; [lia|exact I].
    - (* Look *)
      destruct (m U ci s r' i c (fun j c' => Some (j, c'))) as [r0|] eqn:Hin; [|discriminate].
      destruct (IHr _ _ _ _ Hi Hin) as [j [c' [HM _]]].
      exists i, c. split; [eapply CLook; exact HM|exact Hm].
  Qed.

  Theorem m_MC : forall r i c k res,
    i <= length s -> m U ci s r i c k = Some res ->
    exists j c', MC U ci s r i c j c' /\ k j c' = Some res.
  Proof. intros r i c k res Hi Hm. exact (m_body_mc r i c k res Hi Hm). Qed.

  Theorem match_at_MC : forall r i j c,
    i <= length s -> match_at U ci s r i = Some (j, c) -> MC U ci s r i [] j c.
  Proof.
    intros r i j c Hi Hm. unfold match_at in Hm.
    destruct (m_MC r i [] _ _ Hi Hm) as [j' [c' [HM Hk]]].
    injection Hk as Hj Hc. subst j' c'. exact HM.
  Qed.

  Theorem search_MC : forall r i j c,
    search U ci s r = Some (i, j, c) -> MC U ci s r i [] j c.
  Proof.
    intros r i j c Hs. unfold search in Hs.
    destruct (search_from_sound U ci s r _ 0 i j c (Nat.le_0_l _) Hs) as [_ [Hil [Hm _]]].
    exact (match_at_MC r i j c Hil Hm).
  Qed.

  (* ---- 3. the analyses ---- *)

  Ltac leaf :=
    intros;
    try match goal with
        | H : ?c = ?pre ++ ?c |- _ => apply app_self_nil in H; subst pre
        end;
    cbn in *; try discriminate; try reflexivity; try lia.

  (* zero-width patterns *)
  Lemma nullable_only_MC_MCN :
    (forall r i c j c', MC U ci s r i c j c' -> nullable_only r = true -> j = i) /\
    (forall r n i c j c', MCN U ci s r n i c j c' -> nullable_only r = true -> j = i).
  Proof.
    apply MC_MCN_ind.
    1-8: leaf.
    - intros a b i j k c c1 c2 Ha IHa Hb IHb Hn. cbn [nullable_only] in Hn.
      apply andb_true_iff in Hn. destruct Hn as [Hna Hnb].
      rewrite (IHb Hnb). exact (IHa Hna).
    - intros a b i j c c' H IH Hn. cbn [nullable_only] in Hn.
      apply andb_true_iff in Hn. exact (IH (proj1 Hn)).
    - intros a b i j c c' H IH Hn. cbn [nullable_only] in Hn.
      apply andb_true_iff in Hn. exact (IH (proj2 Hn)).
    - intros n r i j c c' H IH Hn. exact (IH Hn).
    - intros lo hi r n i j c c' Hlo Hhi HN IHN Hn. cbn [nullable_only] in Hn.
      apply orb_true_iff in Hn. destruct Hn as [Hn|Hn]; [exact (IHN Hn)|].
      destruct hi as [[|h]|]; try discriminate.
      assert (n = 0) by lia. subst n. inversion HN; subst. reflexivity.
    - intros; reflexivity.
    - intros; reflexivity.
    - intros r n i j k c c1 c2 H IH HN IHN Hn. rewrite (IHN Hn). exact (IH Hn).
  Qed.

  Theorem nullable_only_sound : forall r i c j c',
    nullable_only r = true -> MC U ci s r i c j c' -> j = i.
  Proof. intros r i c j c' Hn H. exact (proj1 nullable_only_MC_MCN _ _ _ _ _ H Hn). Qed.

  Section G.
    Variable g : nat.    (* the group under analysis *)

    (* a pattern that does not mention g pushes no entry for g *)
    Lemma mentions_MC_MCN :
      (forall r i c j c', MC U ci s r i c j c' -> mentions g r = false ->
         forall pre, c' = pre ++ c -> cap_get g pre = None) /\
      (forall r n i c j c', MCN U ci s r n i c j c' -> mentions g r = false ->
         forall pre, c' = pre ++ c -> cap_get g pre = None).
    Proof.
      apply MC_MCN_ind.
      1-8: leaf.
      - intros a b i j k c c1 c2 Ha IHa Hb IHb Hm pre Hpre. cbn [mentions] in Hm.
        apply orb_false_iff in Hm. destruct Hm as [Hma Hmb].
        destruct (split2 c c1 c2 pre (MC_pre _ _ _ _ _ Ha) (MC_pre _ _ _ _ _ Hb) Hpre)
          as [pa [pb [Hpa [Hpb Hp]]]].
        subst pre. rewrite cap_get_app, (IHb Hmb pb Hpb). exact (IHa Hma pa Hpa).
      - intros a b i j c c' H IH Hm pre Hpre. cbn [mentions] in Hm.
        apply orb_false_iff in Hm. exact (IH (proj1 Hm) pre Hpre).
      - intros a b i j c c' H IH Hm pre Hpre. cbn [mentions] in Hm.
        apply orb_false_iff in Hm. exact (IH (proj2 Hm) pre Hpre).
      - intros n r i j c c' H IH Hm pre Hpre. cbn [mentions] in Hm.
        apply orb_false_iff in Hm. destruct Hm as [Hn Hm].
        destruct (MC_pre _ _ _ _ _ H) as [pa Hpa].
        assert (pre = (n, (i, j)) :: pa).
        { apply (app_inv_tail c). rewrite <- Hpre, Hpa. reflexivity. }
        subst pre. cbn [cap_get]. rewrite Nat.eqb_sym, Hn. exact (IH Hm pa Hpa).
      - intros lo hi r n i j c c' Hlo Hhi HN IHN Hm pre Hpre. exact (IHN Hm pre Hpre).
      - leaf.
      - leaf.
      - intros r n i j k c c1 c2 H IH HN IHN Hm pre Hpre.
        destruct (split2 c c1 c2 pre (MC_pre _ _ _ _ _ H) (MCN_pre _ _ _ _ _ _ HN) Hpre)
          as [pa [pb [Hpa [Hpb Hp]]]].
        subst pre. rewrite cap_get_app, (IHN Hm pb Hpb). exact (IH Hm pa Hpa).
    Qed.

    Lemma mentions_sound : forall r i c j c' pre,
      mentions g r = false -> MC U ci s r i c j c' -> c' = pre ++ c -> cap_get g pre = None.
    Proof. intros r i c j c' pre Hm H Hp. exact (proj1 mentions_MC_MCN _ _ _ _ _ H Hm pre Hp). Qed.

    (* every match pushes a new entry for g *)
    Lemma always_sets_MC_MCN :
      (forall r i c j c', MC U ci s r i c j c' -> always_sets g r = true ->
         exists pre sp, c' = pre ++ c /\ cap_get g pre = Some sp) /\
      (forall r n i c j c', MCN U ci s r n i c j c' -> always_sets g r = true -> 1 <= n ->
         exists pre sp, c' = pre ++ c /\ cap_get g pre = Some sp).
    Proof.
      apply MC_MCN_ind.
      1-8: leaf.
      - intros a b i j k c c1 c2 Ha IHa Hb IHb Hs. cbn [always_sets] in Hs.
        apply orb_true_iff in Hs. destruct Hs as [Hs|Hs].
        + destruct (IHa Hs) as [pa [sp [Hpa Hg]]]. destruct (MC_pre _ _ _ _ _ Hb) as [pb Hpb].
          exists (pb ++ pa). rewrite cap_get_app, Hg.
          destruct (cap_get g pb) as [sp'|]; [exists sp'|exists sp];
            (split; [rewrite Hpb, Hpa, app_assoc; reflexivity|reflexivity]).
        + destruct (IHb Hs) as [pb [sp [Hpb Hg]]]. destruct (MC_pre _ _ _ _ _ Ha) as [pa Hpa].
          exists (pb ++ pa), sp. rewrite cap_get_app, Hg.
          split; [rewrite Hpb, Hpa, app_assoc; reflexivity|reflexivity].
      - intros a b i j c c' H IH Hs. cbn [always_sets] in Hs.
        apply andb_true_iff in Hs. exact (IH (proj1 Hs)).
      - intros a b i j c c' H IH Hs. cbn [always_sets] in Hs.
        apply andb_true_iff in Hs. exact (IH (proj2 Hs)).
      - intros n r i j c c' H IH Hs. cbn [always_sets] in Hs.
        destruct (Nat.eqb n g) eqn:Hn.
        + destruct (MC_pre _ _ _ _ _ H) as [pa Hpa].
          exists ((n, (i, j)) :: pa), (i, j). split; [rewrite Hpa; reflexivity|].
          cbn [cap_get]. rewrite Nat.eqb_sym, Hn. reflexivity.
        + cbn [orb] in Hs. destruct (IH Hs) as [pa [sp [Hpa Hg]]].
          exists ((n, (i, j)) :: pa), sp. split; [rewrite Hpa; reflexivity|].
          cbn [cap_get]. rewrite Nat.eqb_sym, Hn. exact Hg.
      - intros lo hi r n i j c c' Hlo Hhi HN IHN Hs. cbn [always_sets] in Hs.
        apply andb_true_iff in Hs. destruct Hs as [Hlo' Hs]. apply Nat.ltb_lt in Hlo'.
        apply (IHN Hs). lia.
      - leaf.
      - leaf.
      - intros r n i j k c c1 c2 H IH HN IHN Hs _.
        destruct (IH Hs) as [pa [sp [Hpa Hg]]]. destruct (MCN_pre _ _ _ _ _ _ HN) as [pb Hpb].
        exists (pb ++ pa). rewrite cap_get_app, Hg.
        destruct (cap_get g pb) as [sp'|]; [exists sp'|exists sp];
          (split; [rewrite Hpb, Hpa, app_assoc; reflexivity|reflexivity]).
    Qed.

    Theorem always_sets_sound : forall r i c j c',
      always_sets g r = true -> MC U ci s r i c j c' ->
      exists pre sp, c' = pre ++ c /\ cap_get g pre = Some sp.
    Proof. intros r i c j c' Hs H. exact (proj1 always_sets_MC_MCN _ _ _ _ _ H Hs). Qed.

    (* the most recent new entry for g starts where the match starts *)
    Lemma starts_at_begin_MC_MCN :
      (forall r i c j c', MC U ci s r i c j c' -> starts_at_begin g r = true ->
         forall pre a b, c' = pre ++ c -> cap_get g pre = Some (a, b) -> a = i) /\
      (forall r n i c j c', MCN U ci s r n i c j c' -> starts_at_begin g r = true -> n <= 1 ->
         forall pre a b, c' = pre ++ c -> cap_get g pre = Some (a, b) -> a = i).
    Proof.
      apply MC_MCN_ind.
      1-8: leaf.
      - intros a b i j k c c1 c2 Ha IHa Hb IHb Hs pre x y Hpre Hg. cbn [starts_at_begin] in Hs.
        destruct (split2 c c1 c2 pre (MC_pre _ _ _ _ _ Ha) (MC_pre _ _ _ _ _ Hb) Hpre)
          as [pa [pb [Hpa [Hpb Hp]]]].
        subst pre. rewrite cap_get_app in Hg.
        apply orb_true_iff in Hs. destruct Hs as [Hs|Hs].
        + apply andb_true_iff in Hs. destruct Hs as [Hmb Hs]. apply negb_true_iff in Hmb.
          rewrite (mentions_sound _ _ _ _ _ _ Hmb Hb Hpb) in Hg.
          exact (IHa Hs pa x y Hpa Hg).
        + apply andb_true_iff in Hs. destruct Hs as [Hs Hsb].
          apply andb_true_iff in Hs. destruct Hs as [Hma Hna]. apply negb_true_iff in Hma.
          rewrite (mentions_sound _ _ _ _ _ _ Hma Ha Hpa) in Hg.
          destruct (cap_get g pb) as [sp|] eqn:Hgb; [|discriminate].
          injection Hg as Hg. subst sp.
          rewrite <- (nullable_only_sound _ _ _ _ _ Hna Ha).
          exact (IHb Hsb pb x y Hpb Hgb).
      - intros a b i j c c' H IH Hs. cbn [starts_at_begin] in Hs.
        apply andb_true_iff in Hs. exact (IH (proj1 Hs)).
      - intros a b i j c c' H IH Hs. cbn [starts_at_begin] in Hs.
        apply andb_true_iff in Hs. exact (IH (proj2 Hs)).
      - intros n r i j c c' H IH Hs pre x y Hpre Hg. cbn [starts_at_begin] in Hs.
        destruct (MC_pre _ _ _ _ _ H) as [pa Hpa].
        assert (pre = (n, (i, j)) :: pa).
        { apply (app_inv_tail c). rewrite <- Hpre, Hpa. reflexivity. }
        subst pre. cbn [cap_get] in Hg. rewrite Nat.eqb_sym in Hg.
        destruct (Nat.eqb n g).
        + injection Hg as Hx _. symmetry. exact Hx.
        + exact (IH Hs pa x y Hpa Hg).
      - intros lo hi r n i j c c' Hlo Hhi HN IHN Hs pre x y Hpre Hg. cbn [starts_at_begin] in Hs.
        apply orb_true_iff in Hs. destruct Hs as [Hs|Hs].
        + apply negb_true_iff in Hs.
          rewrite (proj2 mentions_MC_MCN _ _ _ _ _ _ HN Hs pre Hpre) in Hg. discriminate.
        + apply andb_true_iff in Hs. destruct Hs as [Hh Hs].
          destruct hi as [[|[|h]]|]; try discriminate.
          exact (IHN Hs Hhi pre x y Hpre Hg).
      - leaf.
      - leaf.
      - intros r n i j k c c1 c2 H IH HN IHN Hs Hn pre x y Hpre Hg.
        assert (n = 0) by lia. subst n. destruct (MCN0_inv _ _ _ _ _ HN) as [-> ->].
        exact (IH Hs pre x y Hpre Hg).
    Qed.

    Theorem starts_at_begin_sound : forall r i c j c',
      starts_at_begin g r = true -> MC U ci s r i c j c' ->
      forall pre a b, c' = pre ++ c -> cap_get g pre = Some (a, b) -> a = i.
    Proof. intros r i c j c' Hs H. exact (proj1 starts_at_begin_MC_MCN _ _ _ _ _ H Hs). Qed.

    (* ... ends where the match ends *)
    Lemma ends_at_end_MC_MCN :
      (forall r i c j c', MC U ci s r i c j c' -> ends_at_end g r = true ->
         forall pre a b, c' = pre ++ c -> cap_get g pre = Some (a, b) -> b = j) /\
      (forall r n i c j c', MCN U ci s r n i c j c' -> ends_at_end g r = true -> n <= 1 ->
         forall pre a b, c' = pre ++ c -> cap_get g pre = Some (a, b) -> b = j).
    Proof.
      apply MC_MCN_ind.
      1-8: leaf.
      - intros a b i j k c c1 c2 Ha IHa Hb IHb Hs pre x y Hpre Hg. cbn [ends_at_end] in Hs.
        destruct (split2 c c1 c2 pre (MC_pre _ _ _ _ _ Ha) (MC_pre _ _ _ _ _ Hb) Hpre)
          as [pa [pb [Hpa [Hpb Hp]]]].
        subst pre. rewrite cap_get_app in Hg.
        apply orb_true_iff in Hs. destruct Hs as [Hs|Hs].
        + apply andb_true_iff in Hs. destruct Hs as [Hma Hs]. apply negb_true_iff in Hma.
          rewrite (mentions_sound _ _ _ _ _ _ Hma Ha Hpa) in Hg.
          destruct (cap_get g pb) as [sp|] eqn:Hgb; [|discriminate].
          injection Hg as Hg. subst sp. exact (IHb Hs pb x y Hpb Hgb).
        + apply andb_true_iff in Hs. destruct Hs as [Hs Hsa].
          apply andb_true_iff in Hs. destruct Hs as [Hmb Hnb]. apply negb_true_iff in Hmb.
          rewrite (mentions_sound _ _ _ _ _ _ Hmb Hb Hpb) in Hg.
          rewrite (nullable_only_sound _ _ _ _ _ Hnb Hb).
          exact (IHa Hsa pa x y Hpa Hg).
      - intros a b i j c c' H IH Hs. cbn [ends_at_end] in Hs.
        apply andb_true_iff in Hs. exact (IH (proj1 Hs)).
      - intros a b i j c c' H IH Hs. cbn [ends_at_end] in Hs.
        apply andb_true_iff in Hs. exact (IH (proj2 Hs)).
      - intros n r i j c c' H IH Hs pre x y Hpre Hg. cbn [ends_at_end] in Hs.
        destruct (MC_pre _ _ _ _ _ H) as [pa Hpa].
        assert (pre = (n, (i, j)) :: pa).
        { apply (app_inv_tail c). rewrite <- Hpre, Hpa. reflexivity. }
        subst pre. cbn [cap_get] in Hg. rewrite Nat.eqb_sym in Hg.
        destruct (Nat.eqb n g).
        + injection Hg as _ Hy. symmetry. exact Hy.
        + exact (IH Hs pa x y Hpa Hg).
      - intros lo hi r n i j c c' Hlo Hhi HN IHN Hs pre x y Hpre Hg. cbn [ends_at_end] in Hs.
        apply orb_true_iff in Hs. destruct Hs as [Hs|Hs].
        + apply negb_true_iff in Hs.
          rewrite (proj2 mentions_MC_MCN _ _ _ _ _ _ HN Hs pre Hpre) in Hg. discriminate.
        + apply andb_true_iff in Hs. destruct Hs as [Hh Hs].
          destruct hi as [[|[|h]]|]; try discriminate.
          exact (IHN Hs Hhi pre x y Hpre Hg).
      - leaf.
      - leaf.
      - intros r n i j k c c1 c2 H IH HN IHN Hs Hn pre x y Hpre Hg.
        assert (n = 0) by lia. subst n. destruct (MCN0_inv _ _ _ _ _ HN) as [-> ->].
        exact (IH Hs pre x y Hpre Hg).
    Qed.

    Theorem ends_at_end_sound : forall r i c j c',
      ends_at_end g r = true -> MC U ci s r i c j c' ->
      forall pre a b, c' = pre ++ c -> cap_get g pre = Some (a, b) -> b = j.
    Proof. intros r i c j c' Hs H. exact (proj1 ends_at_end_MC_MCN _ _ _ _ _ H Hs). Qed.
  End G.

  (* ---- 4. totality ---- *)
  Theorem always_matches_total : forall r,
    always_matches r = true ->
    forall i c k, i <= length s ->
      (forall j c', i <= j -> j <= length s -> k j c' <> None) ->
      m U ci s r i c k <> None.
  Proof.
    induction r as [| |ch|ch| |neg items| | | |a IHa b IHb|a IHa b IHb|g r' IHr|lo hi r' IHr|r' IHr];
      intros Ham i c k Hi Hk; cbn [always_matches] in Ham; try discriminate; cbn [m].
    - apply Hk; lia.
    - apply andb_true_iff in Ham. destruct Ham as [Ha Hb].
      apply (IHa Ha); [exact Hi|]. intros j c' Hij Hj.
      apply (IHb Hb); [exact Hj|]. intros j' c'' Hjj' Hj'. apply Hk; lia.
    - destruct (m U ci s a i c k) as [r0|] eqn:Hma; [discriminate|].
      apply orb_true_iff in Ham. destruct Ham as [Ha|Hb].
      + exfalso. exact (IHa Ha i c k Hi Hk Hma).
      + exact (IHb Hb i c k Hi Hk).
    - apply (IHr Ham); [exact Hi|]. intros j c' Hij Hj. apply Hk; assumption.
    - destruct lo as [|lo]; [|discriminate]. cbn [plus rep].
      match goal with
      | |- match ?e with _ => _ end <> None => destruct e as [r0|]; [discriminate|]
      end.
      cbn [Nat.leb]. apply Hk; lia.
    - destruct (m U ci s r' i c (fun j c' => Some (j, c'))) as [r0|] eqn:Hl.
      + apply Hk; lia.
      + exfalso. apply (IHr Ham i c (fun j c' => Some (j, c')) Hi); [|exact Hl].
        intros j c' _ _. discriminate.
  Qed.

  Theorem match_at_total : forall r i,
    always_matches r = true -> i <= length s -> match_at U ci s r i <> None.
  Proof.
    intros r i Ham Hi. unfold match_at. apply (always_matches_total r Ham); [exact Hi|].
    intros j c' _ _. discriminate.
  Qed.

  Theorem search_bol_total : forall r,
    always_matches r = true -> search U ci s (Cat Bol r) <> None.
  Proof.
    intros r Ham. unfold search. cbn [search_from].
    destruct (match_at U ci s (Cat Bol r) 0) as [[j c]|] eqn:Hm; [discriminate|].
    exfalso. unfold match_at in Hm. cbn [m Nat.eqb] in Hm.
    revert Hm. apply (always_matches_total r Ham); [lia|].
    intros j c' _ _. discriminate.
  Qed.
End S.

Print Assumptions MC_M.
Print Assumptions MC_grows.
Print Assumptions m_MC.
Print Assumptions search_MC.
Print Assumptions always_sets_sound.
Print Assumptions starts_at_begin_sound.
Print Assumptions ends_at_end_sound.
Print Assumptions nullable_only_sound.
Print Assumptions always_matches_total.
Print Assumptions search_bol_total.
