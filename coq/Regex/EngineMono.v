(* Regex/EngineMono.v -- success of the matcher of Regex/Match.v does not depend on the captures
   it threads (only on the positions at which the continuation succeeds); the zero-minimum
   repetition falls back to its continuation; patterns ending in `$`. *)
From EV Require Import Base.Str Regex.Syntax Regex.Decl Regex.Match.

Section S.
  Variable U : utables.
  Variable ci : bool.
  Variable s : str.

  (* k2 succeeds wherever k1 does, whatever the captures *)
  Definition le_k (k1 k2 : K) : Prop := forall j d1 d2, k1 j d1 <> None -> k2 j d2 <> None.

  Definition body_mono (body : nat -> caps -> K -> option mresult) : Prop :=
    forall i c1 c2 k1 k2, le_k k1 k2 -> body i c1 k1 <> None -> body i c2 k2 <> None.

  Lemma rep_mono : forall body lo hi, body_mono body ->
    forall fuel count last i c1 c2 k1 k2, le_k k1 k2 ->
      rep body lo hi fuel count last i c1 k1 <> None ->
      rep body lo hi fuel count last i c2 k2 <> None.
  Proof.
    intros body lo hi Hb fuel. induction fuel as [|f IHf]; intros count last i c1 c2 k1 k2 Hle H;
      cbn [rep] in *; [exact H|].
    destruct (match hi with Some h => (count <? h)%nat | None => true end
              && ((count <? lo)%nat || negb (same_pos last i))).
    - destruct (body i c1 (fun j c' => rep body lo hi f (S count) (Some i) j c' k1)) as [r1|] eqn:E1.
      + assert (H2 : body i c2 (fun j c' => rep body lo hi f (S count) (Some i) j c' k2) <> None).
        { apply (Hb i c1 c2 (fun j c' => rep body lo hi f (S count) (Some i) j c' k1)).
          - intros j d1 d2. apply IHf. exact Hle.
          - rewrite E1. discriminate. }
        destruct (body i c2 _); [discriminate|contradiction].
      + destruct (body i c2 _); [discriminate|].
        destruct (lo <=? count)%nat; [exact (Hle i c1 c2 H)|exact H].
    - destruct (lo <=? count)%nat; [exact (Hle i c1 c2 H)|exact H].
  Qed.

  Lemma m_mono : forall r, body_mono (fun i c k => m U ci s r i c k).
  Proof.
    unfold body_mono.
    induction r as [| |ch|ch| |neg items| | | |a IHa b IHb|a IHa b IHb|g r' IHr|lo hi r' IHr|r' IHr];
      intros i c1 c2 k1 k2 Hle H; cbn [m] in *.
    - exact (Hle i c1 c2 H).
    - exact H.
    - destruct (nth_error s i) as [x|]; [|exact H].
      destruct (lit_mem U ci ch x); [exact (Hle _ c1 c2 H)|exact H].
    - destruct (nth_error s i) as [x|]; [|exact H].
      destruct (lit_mem U ci ch x); [exact H|exact (Hle _ c1 c2 H)].
    - destruct (nth_error s i) as [x|]; [|exact H].
      destruct (N.eqb x 10); [exact H|exact (Hle _ c1 c2 H)].
    - destruct (nth_error s i) as [x|]; [|exact H].
      destruct (set_mem U ci neg items x); [exact (Hle _ c1 c2 H)|exact H].
    - destruct (Nat.eqb i 0); [exact (Hle _ c1 c2 H)|exact H].
    - destruct (at_eol s i); [exact (Hle _ c1 c2 H)|exact H].
    - destruct (word_boundary U s i); [exact (Hle _ c1 c2 H)|exact H].
    - apply (IHa i c1 c2 (fun j c' => m U ci s b j c' k1)); [|exact H].
      intros j d1 d2. apply IHb. exact Hle.
    - destruct (m U ci s a i c1 k1) as [r1|] eqn:E1.
      + assert (H2 : m U ci s a i c2 k2 <> None).
        { apply (IHa i c1 c2 k1 k2 Hle). rewrite E1. discriminate. }
        destruct (m U ci s a i c2 k2); [discriminate|contradiction].
      + destruct (m U ci s a i c2 k2); [discriminate|]. exact (IHb i c1 c2 k1 k2 Hle H).
    - apply (IHr i c1 c2 (fun j c' => k1 j ((g, (i, j)) :: c'))); [|exact H].
      intros j d1 d2. apply Hle.
    - exact (rep_mono _ lo hi IHr _ _ _ _ _ _ _ _ Hle H).
    - destruct (m U ci s r' i c1 (fun j c' => Some (j, c'))) as [r1|] eqn:E1; [|contradiction].
      assert (H2 : m U ci s r' i c2 (fun j c' => Some (j, c')) <> None).
      { apply (IHr i c1 c2 (fun j c' => Some (j, c'))); [|rewrite E1; discriminate].
        intros j d1 d2 _. discriminate. }
      destruct (m U ci s r' i c2 _); [exact (Hle _ c1 c2 H)|contradiction].
  Qed.

  (* a zero-minimum repetition succeeds whenever its continuation does at the current position *)
  Lemma rep_fallback : forall body hi f count last i c k,
    k i c <> None -> rep body 0 hi (S f) count last i c k <> None.
  Proof.
    intros body hi f count last i c k H. cbn [rep].
    match goal with |- match ?e with _ => _ end <> None => destruct e; [discriminate|] end.
    cbn [Nat.leb]. exact H.
  Qed.

  (* unfolding equations that keep sub-patterns folded *)
  Lemma m_cat : forall a b i c k,
    m U ci s (Cat a b) i c k = m U ci s a i c (fun j c' => m U ci s b j c' k).
  Proof. reflexivity. Qed.

  Lemma m_group : forall g r i c k,
    m U ci s (Group g r) i c k = m U ci s r i c (fun j c' => k j ((g, (i, j)) :: c')).
  Proof. reflexivity. Qed.

  Lemma rep_step_some : forall body lo hi f count last i c k,
    match hi with Some h => (count <? h)%nat | None => true end
    && ((count <? lo)%nat || negb (same_pos last i)) = true ->
    body i c (fun j c' => rep body lo hi f (S count) (Some i) j c' k) <> None ->
    rep body lo hi (S f) count last i c k <> None.
  Proof.
    intros body lo hi f count last i c k Hc Hb. cbn [rep]. rewrite Hc.
    destruct (body i c _); [discriminate|contradiction].
  Qed.

  (* .* can always take one more non-newline character *)
  Lemma any_star_step : forall p y c k,
    nth_error s p = Some y -> N.eqb y 10 = false ->
    k (S p) c <> None -> m U ci s (Rep 0 None Any) p c k <> None.
  Proof.
    intros p y c k Hy Hnl Hk. cbn [m plus].
    apply rep_step_some; [reflexivity|].
    cbv beta. rewrite Hy, Hnl. apply rep_fallback. exact Hk.
  Qed.

  (* patterns that end in `$` *)
  Fixpoint ends_eol (r : re) : bool :=
    match r with
    | Eol => true
    | Cat _ b => ends_eol b
    | Group _ a => ends_eol a
    | Alt a b => ends_eol a && ends_eol b
    | _ => false
    end.

  Lemma ends_eol_sound : forall r i j, ends_eol r = true -> M U ci s r i j -> at_eol s j = true.
  Proof.
    induction r as [| |ch|ch| |neg items| | | |a IHa b IHb|a IHa b IHb|g r' IHr|lo hi r' IHr|r' IHr];
      intros i j He HM; cbn [ends_eol] in He; try discriminate.
    - inversion HM; subst. assumption.
    - inversion HM as [| | | | | | | |? ? ? j1 ? Ha Hb| | | | |]; subst. exact (IHb _ _ He Hb).
    - apply andb_true_iff in He. inversion HM; subst; [exact (IHa _ _ (proj1 He) H3)|exact (IHb _ _ (proj2 He) H3)].
    - inversion HM; subst. exact (IHr _ _ He H3).
  Qed.
End S.

Print Assumptions m_mono.
Print Assumptions any_star_step.
Print Assumptions ends_eol_sound.
