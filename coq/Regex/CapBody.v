(* Regex/CapBody.v -- a capture reported by the matcher of Regex/Match.v is a declarative match
   of the body of one of the pattern's groups with that number; and a sound minimum-length
   analysis of patterns (hence: a group whose bodies all have positive minimum length is never
   captured empty). *)
From EV Require Import Base.Str Regex.Syntax Regex.Decl Regex.Match Regex.MatchSound.

(* the bodies r' of every sub-pattern  Group n r'  of r *)
Fixpoint group_body (n : nat) (r : re) : list re :=
  match r with
  | Group g r' => (if Nat.eqb g n then [r'] else []) ++ group_body n r'
  | Cat a b | Alt a b => group_body n a ++ group_body n b
  | Rep _ _ a | Look a => group_body n a
  | _ => []
  end.

(* Lit/NotLit/Any/Set_ consume one character; anchors and lookaheads none *)
Fixpoint minlen (r : re) : nat :=
  match r with
  | Lit _ | NotLit _ | Any | Set_ _ _ => 1
  | Cat a b => minlen a + minlen b
  | Alt a b => Nat.min (minlen a) (minlen b)
  | Group _ a => minlen a
  | Rep lo _ a => lo * minlen a
  | _ => 0
  end.

Section S.
  Variable U : utables.
  Variable ci : bool.
  Variable s : str.

  (* every capture present at the continuation was present before, or is a match of one of the
     bodies listed by G for its group number *)
  Definition caps_body (G : nat -> list re) (c c' : caps) : Prop :=
    forall n a b, In (n, (a, b)) c' ->
      In (n, (a, b)) c \/ exists r', In r' (G n) /\ M U ci s r' a b.

  Lemma caps_body_refl : forall G c, caps_body G c c.
  Proof. intros G c n a b H. left. exact H. Qed.

  Lemma caps_body_mono : forall (G G' : nat -> list re) c c',
    (forall n r', In r' (G n) -> In r' (G' n)) -> caps_body G c c' -> caps_body G' c c'.
  Proof.
    intros G G' c c' Hsub H n a b Hin.
    destruct (H n a b Hin) as [Hold|[r' [Hr' HM]]]; [left; exact Hold|].
    right. exists r'. split; [apply Hsub; exact Hr'|exact HM].
  Qed.

  Lemma caps_body_trans : forall G c c1 c2,
    caps_body G c c1 -> caps_body G c1 c2 -> caps_body G c c2.
  Proof.
    intros G c c1 c2 H1 H2 n a b Hin.
    destruct (H2 n a b Hin) as [Hin1|Hnew]; [|right; exact Hnew].
    exact (H1 n a b Hin1).
  Qed.

  (* the specification of a matcher body for the pattern r *)
  Definition body_capok (r : re) (body : nat -> caps -> K -> option mresult) : Prop :=
    forall i c k res, i <= length s -> body i c k = Some res ->
      exists j c', M U ci s r i j /\ k j c' = Some res /\
                   caps_body (fun n => group_body n r) c c'.

  Lemma rep_capok : forall r body lo hi, body_capok r body ->
    forall fuel count last i c k res, i <= length s ->
      match hi with Some h => count <= h | None => True end ->
      rep body lo hi fuel count last i c k = Some res ->
      exists n j c', MN U ci s r n i j /\ lo <= count + n /\
        match hi with Some h => count + n <= h | None => True end /\
        k j c' = Some res /\ caps_body (fun n => group_body n r) c c'.
  Proof.
    intros r body lo hi Hbody fuel.
    induction fuel as [|f IHf]; intros count last i c k res Hi Hcnt Hrep.
    - cbn [rep] in Hrep. discriminate.
    - cbn [rep] in Hrep.
      assert (Hfall : (if (lo <=? count)%nat then k i c else None) = Some res ->
        exists n j c', MN U ci s r n i j /\ lo <= count + n /\
          match hi with Some h => count + n <= h | None => True end /\
          k j c' = Some res /\ caps_body (fun n => group_body n r) c c').
      { intros Hf.
        destruct (Nat.leb_spec lo count) as [Hle|Hgt]; [|discriminate].
        exists 0, i, c. split; [|split; [|split; [|split]]].
        - apply MN0. exact Hi.
        - lia.
        - destruct hi as [h|]; [lia|exact I].
        - exact Hf.
        - apply caps_body_refl. }
      match type of Hrep with
      | match (if ?g then _ else _) with _ => _ end = _ => destruct g eqn:Hg
      end; [|apply Hfall; exact Hrep].
      apply andb_true_iff in Hg. destruct Hg as [Hg _].
      match type of Hrep with
      | match ?e with _ => _ end = _ => destruct e as [r0|] eqn:Hb
      end; [|apply Hfall; exact Hrep].
      injection Hrep as Hrep. subst r0. clear Hfall.
      assert (Hcnt' : match hi with Some h => S count <= h | None => True end).
      { destruct hi as [h|]; [apply Nat.ltb_lt in Hg; lia|exact I]. }
      destruct (Hbody _ _ _ _ Hi Hb) as [j1 [c1 [HM1 [Hk1 Hc1]]]].
      destruct (M_bounds U ci s _ _ _ HM1) as [Hij1 Hj1].
      destruct (IHf _ _ _ _ _ _ Hj1 Hcnt' Hk1) as [n [j [c' [HMN [Hlo [Hhi [Hk Hc]]]]]]].
      exists (S n), j, c'. split; [|split; [|split; [|split]]].
      + eapply MNS; eassumption.
      + lia.
      + destruct hi as [h|]; [lia|exact I].
      + exact Hk.
      + eapply caps_body_trans; eassumption.
  Qed.

  Lemma m_body_capok : forall r, body_capok r (fun i c k => m U ci s r i c k).
  Proof.
    unfold body_capok.
    induction r as [| |ch|ch| |neg items| | | |a IHa b IHb|a IHa b IHb|g r' IHr|lo hi r' IHr|r' IHr];
      intros i c k res Hi Hm; cbn [m] in Hm.
    - exists i, c. split; [apply MEps; exact Hi|]. split; [exact Hm|apply caps_body_refl].
    - discriminate.
    - destruct (nth_error s i) as [x|] eqn:Hx; [|discriminate].
      destruct (lit_mem U ci ch x) eqn:Hl; [|discriminate].
      exists (S i), c. split; [eapply MLit; eassumption|]. split; [exact Hm|apply caps_body_refl].
    - destruct (nth_error s i) as [x|] eqn:Hx; [|discriminate].
      destruct (lit_mem U ci ch x) eqn:Hl; [discriminate|].
      exists (S i), c. split; [eapply MNotLit; eassumption|]. split; [exact Hm|apply caps_body_refl].
    - destruct (nth_error s i) as [x|] eqn:Hx; [|discriminate].
      destruct (N.eqb x 10) eqn:Hl; [discriminate|].
      exists (S i), c. split; [eapply MAny; eassumption|]. split; [exact Hm|apply caps_body_refl].
    - destruct (nth_error s i) as [x|] eqn:Hx; [|discriminate].
      destruct (set_mem U ci neg items x) eqn:Hl; [|discriminate].
      exists (S i), c. split; [eapply MSet; eassumption|]. split; [exact Hm|apply caps_body_refl].
    - destruct (Nat.eqb_spec i 0) as [Hi0|Hn]; [|discriminate]. subst i.
      exists 0, c. split; [apply MBol|]. split; [exact Hm|apply caps_body_refl].
    - destruct (at_eol s i) eqn:He; [|discriminate].
      exists i, c. split; [apply MEol; assumption|]. split; [exact Hm|apply caps_body_refl].
    - destruct (word_boundary U s i) eqn:He; [|discriminate].
      exists i, c. split; [apply MWordB; assumption|]. split; [exact Hm|apply caps_body_refl].
    - (* Cat *)
      destruct (IHa _ _ _ _ Hi Hm) as [j1 [c1 [HMa [Hk1 Hc1]]]].
      destruct (M_bounds U ci s _ _ _ HMa) as [Hij1 Hj1].
      destruct (IHb _ _ _ _ Hj1 Hk1) as [j [c' [HMb [Hk Hc]]]].
      exists j, c'. split; [eapply MCat; eassumption|]. split; [exact Hk|].
      apply (caps_body_trans _ c c1 c').
      + eapply caps_body_mono; [|exact Hc1].
        intros n r0 Hr0. cbn [group_body]. apply in_or_app. left. exact Hr0.
      + eapply caps_body_mono; [|exact Hc].
        intros n r0 Hr0. cbn [group_body]. apply in_or_app. right. exact Hr0.
    - (* Alt *)
      destruct (m U ci s a i c k) as [r0|] eqn:Ha.
      + injection Hm as Hm. subst r0.
        destruct (IHa _ _ _ _ Hi Ha) as [j [c' [HM [Hk Hc]]]].
        exists j, c'. split; [apply MAltL; exact HM|]. split; [exact Hk|].
        eapply caps_body_mono; [|exact Hc].
        intros n r0 Hr0. cbn [group_body]. apply in_or_app. left. exact Hr0.
      + destruct (IHb _ _ _ _ Hi Hm) as [j [c' [HM [Hk Hc]]]].
        exists j, c'. split; [apply MAltR; exact HM|]. split; [exact Hk|].
        eapply caps_body_mono; [|exact Hc].
        intros n r0 Hr0. cbn [group_body]. apply in_or_app. right. exact Hr0.
    - (* Group *)
      destruct (IHr _ _ _ _ Hi Hm) as [j [c1 [HM [Hk Hc]]]].
      exists j, ((g, (i, j)) :: c1). split; [apply MGroup; exact HM|]. split; [exact Hk|].
      intros n a b [Heq|Hin].
      + injection Heq as Hn Ha Hb. subst n a b. right. exists r'. split; [|exact HM].
        cbn [group_body]. rewrite Nat.eqb_refl. left. reflexivity.
      + destruct (Hc n a b Hin) as [Hold|[r0 [Hr0 HM0]]]; [left; exact Hold|].
        right. exists r0. split; [|exact HM0].
        cbn [group_body]. apply in_or_app. right. exact Hr0.
    - (* Rep *)
      assert (H0 : match hi with Some h => 0 <= h | None => True end).
      { destruct hi as [h|]; [lia|exact I]. }
      destruct (rep_capok r' _ lo hi IHr _ _ _ _ _ _ _ Hi H0 Hm)
        as [n [j [c' [HMN [Hlo [Hhi [Hk Hc]]]]]]].
      exists j, c'. split; [|split; [exact Hk|exact Hc]].
      eapply MRep; [| |exact HMN].
      + lia.
      + destruct hi as [h|]; [lia|exact I].
    - (* Look *)
      destruct (m U ci s r' i c (fun j c' => Some (j, c'))) as [r0|] eqn:Hin; [|discriminate].
      destruct (IHr _ _ _ _ Hi Hin) as [j [c' [HM _]]].
      exists i, c. split; [eapply MLook; exact HM|]. split; [exact Hm|apply caps_body_refl].
  Qed.

  (* a capture is a match of its group's body *)
  Theorem m_cap_body : forall r i c k res,
    i <= length s ->
    m U ci s r i c k = Some res ->
    exists j c', M U ci s r i j /\ k j c' = Some res /\
      forall n a b, In (n, (a, b)) c' ->
        In (n, (a, b)) c \/ (exists r', In r' (group_body n r) /\ M U ci s r' a b).
  Proof. intros r i c k res Hi Hm. exact (m_body_capok r i c k res Hi Hm). Qed.

  Theorem match_at_cap_body : forall r i j c,
    i <= length s ->
    match_at U ci s r i = Some (j, c) ->
    M U ci s r i j /\
    forall n a b, In (n, (a, b)) c -> exists r', In r' (group_body n r) /\ M U ci s r' a b.
  Proof.
    intros r i j c Hi Hm. unfold match_at in Hm.
    destruct (m_cap_body r i [] _ _ Hi Hm) as [j' [c' [HM [Hk Hc]]]].
    injection Hk as Hj Hc'. subst j' c'.
    split; [exact HM|].
    intros n a b Hin. destruct (Hc n a b Hin) as [[]|H]. exact H.
  Qed.

  Theorem search_cap_body : forall r i j c,
    search U ci s r = Some (i, j, c) ->
    M U ci s r i j /\
    forall n a b, In (n, (a, b)) c -> exists r', In r' (group_body n r) /\ M U ci s r' a b.
  Proof.
    intros r i j c Hs. unfold search in Hs.
    destruct (search_from_sound U ci s r _ 0 i j c (Nat.le_0_l _) Hs) as [_ [Hil [Hm _]]].
    exact (match_at_cap_body r i j c Hil Hm).
  Qed.

  (* ---- minimum length ---- *)
  Lemma minlen_M_MN :
    (forall r i j, M U ci s r i j -> i + minlen r <= j) /\
    (forall r n i j, MN U ci s r n i j -> i + n * minlen r <= j).
  Proof.
    apply M_MN_ind; intros; cbn [minlen]; try lia.
    - (* Rep *)
      assert (lo * minlen r <= n * minlen r) by (apply Nat.mul_le_mono_r; assumption). lia.
  Qed.

  Theorem minlen_sound : forall r i j, M U ci s r i j -> i + minlen r <= j.
  Proof. exact (proj1 minlen_M_MN). Qed.

  (* a group all of whose bodies need at least one character is never captured empty *)
  Corollary match_at_cap_nonempty : forall r i j c n a b,
    i <= length s ->
    (forall r', In r' (group_body n r) -> 0 < minlen r') ->
    match_at U ci s r i = Some (j, c) -> In (n, (a, b)) c -> a < b.
  Proof.
    intros r i j c n a b Hi Hpos Hm Hin.
    destruct (match_at_cap_body r i j c Hi Hm) as [_ Hc].
    destruct (Hc n a b Hin) as [r' [Hr' HM]].
    pose proof (minlen_sound _ _ _ HM). pose proof (Hpos r' Hr'). lia.
  Qed.
End S.

Print Assumptions m_cap_body.
Print Assumptions match_at_cap_body.
Print Assumptions search_cap_body.
Print Assumptions minlen_sound.
