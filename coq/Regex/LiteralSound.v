(* Regex/LiteralSound.v -- soundness of the required-literal analysis of
   Regex/Literal.v with respect to the declarative semantics of Regex/Decl.v:
   whenever a pattern matches somewhere in a text, the normalised text contains
   one of the literals the check accepted. *)
From EV Require Import Base.Str Regex.Syntax Regex.Decl Regex.Literal.

Definition clean (absent : N -> bool) (s : str) : Prop := Forall (fun c => absent c = false) s.

(* ------------------------------------------------------------------ *)
(* infix                                                               *)
(* ------------------------------------------------------------------ *)

Lemma infix_refl (t : str) : infix t t.
Proof. exists [], []. cbn. rewrite app_nil_r. reflexivity. Qed.

Lemma infix_trans (a b c : str) : infix a b -> infix b c -> infix a c.
Proof.
  intros [x [y Hb]] [u [v Hc]]. subst b c.
  exists (u ++ x), (y ++ v). repeat rewrite <- app_assoc. reflexivity.
Qed.

Lemma infix_app_l (a b : str) : infix a (a ++ b).
Proof. exists [], b. reflexivity. Qed.

Lemma infix_app_r (a b : str) : infix b (a ++ b).
Proof. exists a, []. rewrite app_nil_r. reflexivity. Qed.

Lemma infix_app_mid (a b c : str) : infix b ((a ++ b) ++ c).
Proof. exists a, c. rewrite <- app_assoc. reflexivity. Qed.

(* ------------------------------------------------------------------ *)
(* slices and positions                                                *)
(* ------------------------------------------------------------------ *)

Lemma nth_lt {A} (s : list A) i x : nth_error s i = Some x -> i < length s.
Proof. intros H. apply nth_error_Some. congruence. Qed.

Lemma firstn1_skipn {A} (s : list A) i x :
  nth_error s i = Some x -> firstn 1 (skipn i s) = [x].
Proof.
  revert s; induction i as [|i IH]; intros [|y s] H; cbn in H; try discriminate.
  - injection H as ->. reflexivity.
  - cbn [skipn]. apply IH. exact H.
Qed.

Lemma slice_single {A} (s : list A) i x :
  nth_error s i = Some x -> slice s i (S i) = [x].
Proof.
  intros H. unfold slice. replace (S i - i) with 1 by lia.
  apply firstn1_skipn. exact H.
Qed.

Lemma slice_nil {A} (s : list A) i : slice s i i = [].
Proof. apply slice_empty. lia. Qed.

Lemma clean_nth absent s i x :
  clean absent s -> nth_error s i = Some x -> absent x = false.
Proof.
  intros Hc Hn. unfold clean in Hc. rewrite Forall_forall in Hc.
  apply Hc. eapply nth_error_In. exact Hn.
Qed.

(* ------------------------------------------------------------------ *)
(* conditions                                                          *)
(* ------------------------------------------------------------------ *)

Lemma ors_cons2 w w' ws : ors (w :: w' :: ws) = COr (CAtom w) (ors (w' :: ws)).
Proof. reflexivity. Qed.

Lemma ors_spec ws t : holds (ors ws) t <-> exists w, In w ws /\ infix w t.
Proof.
  induction ws as [|w ws IH].
  - cbn. split; [contradiction|]. intros [w [[] _]].
  - destruct ws as [|w' ws].
    + cbn. split.
      * intros H. exists w. split; [left; reflexivity|exact H].
      * intros [w0 [[<-|[]] H]]. exact H.
    + rewrite ors_cons2. cbn [holds]. rewrite IH. split.
      * intros [H|[w0 [Hin H]]].
        -- exists w. split; [left; reflexivity|exact H].
        -- exists w0. split; [right; exact Hin|exact H].
      * intros [w0 [[<-|Hin] H]].
        -- left. exact H.
        -- right. exists w0. split; assumption.
Qed.

Lemma holds_mono_gen c t t' : holds c t -> infix t t' -> holds c t'.
Proof.
  intros H Hi. induction c as [| |a|a IHa b IHb|a IHa b IHb]; cbn [holds] in *.
  - exact I.
  - contradiction.
  - eapply infix_trans; eassumption.
  - destruct H as [Ha Hb]. split; auto.
  - destruct H as [Ha|Hb]; [left|right]; auto.
Qed.

Lemma flush_sound_gen i t : sem i t -> holds (flush i) t.
Proof.
  destruct i as [ws|pre c]; cbn [sem flush holds].
  - intros Hin. apply ors_spec. exists t. split; [exact Hin|apply infix_refl].
  - intros [[p [r [Ht Hin]]] Hc]. split; [|exact Hc].
    apply ors_spec. exists p. split; [exact Hin|]. subst t. apply infix_app_l.
Qed.

Lemma implies_any_sound_gen lits c t :
  implies_any lits c = true -> holds c t -> exists l, In l lits /\ infix l t.
Proof.
  induction c as [| |a|a IHa b IHb|a IHa b IHb]; cbn [implies_any holds]; intros Hi Hh.
  - discriminate.
  - contradiction.
  - apply existsb_exists in Hi as [l [Hin Hl]]. apply infixb_spec in Hl.
    exists l. split; [exact Hin|]. eapply infix_trans; eassumption.
  - destruct Hh as [Ha Hb]. apply orb_true_iff in Hi as [Hi|Hi]; auto.
  - apply andb_true_iff in Hi as [Hia Hib]. destruct Hh as [Ha|Hb]; auto.
Qed.

(* ------------------------------------------------------------------ *)
(* info: sem, combine, alt, repetitions                                *)
(* ------------------------------------------------------------------ *)

Lemma sem_no_info t : sem no_info t.
Proof.
  unfold no_info. cbn [sem holds]. split; [|exact I].
  exists [], t. split; [reflexivity|left; reflexivity].
Qed.

Lemma sem_prefs x t : sem x t -> exists p r, t = p ++ r /\ In p (prefs x).
Proof.
  destruct x as [ws|pre c]; cbn [sem prefs].
  - intros Hin. exists t, []. rewrite app_nil_r. split; [reflexivity|exact Hin].
  - intros [H _]. exact H.
Qed.

Lemma in_cross a b A B : In a A -> In b B -> In (a ++ b) (cross A B).
Proof.
  intros Ha Hb. unfold cross. apply in_flat_map. exists a. split; [exact Ha|].
  apply (in_map (fun y => a ++ y)). exact Hb.
Qed.

Lemma combine_sound x y ta tb : sem x ta -> sem y tb -> sem (combine x y) (ta ++ tb).
Proof.
  intros Hx Hy. destruct x as [a|pa ca].
  - destruct y as [b|pb cb]; cbn [combine].
    + cbn [sem] in Hx, Hy. destruct (_ <=? BOUND)%nat.
      * cbn [sem]. apply in_cross; assumption.
      * cbn [sem]. split.
        -- exists ta, tb. split; [reflexivity|exact Hx].
        -- apply ors_spec. exists tb. split; [exact Hy|apply infix_app_r].
    + cbn [sem] in Hx, Hy. destruct Hy as [[p [r [Htb Hp]]] Hcb].
      assert (Hcb' : holds cb (ta ++ tb)).
      { eapply holds_mono_gen; [exact Hcb|apply infix_app_r]. }
      destruct (_ <=? BOUND)%nat.
      * cbn [sem]. split; [|exact Hcb'].
        exists (ta ++ p), r. split.
        -- subst tb. rewrite app_assoc. reflexivity.
        -- apply in_cross; assumption.
      * cbn [sem holds]. split; [|split; [|exact Hcb']].
        -- exists ta, tb. split; [reflexivity|exact Hx].
        -- apply ors_spec. exists p. split; [exact Hp|].
           subst tb. exists ta, r. reflexivity.
  - cbn [combine]. cbn [sem] in Hx. destruct Hx as [[p [r [Hta Hp]]] Hca].
    cbn [sem holds]. split; [|split].
    + exists p, (r ++ tb). split; [|exact Hp]. subst ta. rewrite app_assoc. reflexivity.
    + eapply holds_mono_gen; [exact Hca|apply infix_app_l].
    + eapply holds_mono_gen; [apply flush_sound_gen; exact Hy|apply infix_app_r].
Qed.

Lemma alt_gen x y t :
  sem x t \/ sem y t -> sem (Pre (prefs x ++ prefs y) (COr (flush x) (flush y))) t.
Proof.
  intros [H|H]; cbn [sem holds]; split.
  - destruct (sem_prefs _ _ H) as [p [r [Ht Hp]]]. exists p, r. split; [exact Ht|].
    apply in_or_app. left. exact Hp.
  - left. apply flush_sound_gen. exact H.
  - destruct (sem_prefs _ _ H) as [p [r [Ht Hp]]]. exists p, r. split; [exact Ht|].
    apply in_or_app. right. exact Hp.
  - right. apply flush_sound_gen. exact H.
Qed.

Lemma alt_sound x y t : sem x t \/ sem y t -> sem (alt x y) t.
Proof.
  intros H. destruct x as [a|pa ca]; destruct y as [b|pb cb].
  - unfold alt. cbn [sem] in *. apply in_or_app. exact H.
  - exact (alt_gen (Exact a) (Pre pb cb) t H).
  - exact (alt_gen (Pre pa ca) (Exact b) t H).
  - exact (alt_gen (Pre pa ca) (Pre pb cb) t H).
Qed.

Lemma rep_one x ts : length ts = 1 -> Forall (sem x) ts -> sem x (concat ts).
Proof.
  intros Hl HF. destruct ts as [|t1 [|t2 ts]]; cbn [length] in Hl; try discriminate.
  cbn [concat]. rewrite app_nil_r. inversion HF; assumption.
Qed.

Lemma rep_opt x ts :
  length ts <= 1 -> Forall (sem x) ts ->
  sem (match x with Exact ws => Exact ([] :: ws) | Pre _ _ => no_info end) (concat ts).
Proof.
  intros Hl HF. destruct x as [ws|pre c]; [|apply sem_no_info].
  destruct ts as [|t1 [|t2 ts]]; cbn [length] in Hl; try lia.
  - cbn [concat sem]. left. reflexivity.
  - cbn [concat]. rewrite app_nil_r. cbn [sem]. right.
    inversion HF as [|? ? H1 ?]; subst. exact H1.
Qed.

Lemma rep_plus x ts :
  1 <= length ts -> Forall (sem x) ts -> sem (Pre (prefs x) (flush x)) (concat ts).
Proof.
  intros Hl HF. destruct ts as [|t1 ts]; cbn [length] in Hl; [lia|].
  inversion HF as [|? ? H1 ?]; subst. cbn [concat sem]. split.
  - destruct (sem_prefs _ _ H1) as [p [r [Ht Hp]]]. exists p, (r ++ concat ts).
    split; [|exact Hp]. subst t1. rewrite app_assoc. reflexivity.
  - eapply holds_mono_gen; [apply flush_sound_gen; exact H1|apply infix_app_l].
Qed.

Lemma rep_sound (x : info) lo hi n ts :
  lo <= n -> match hi with Some h => n <= h | None => True end ->
  length ts = n -> Forall (sem x) ts ->
  sem (match lo, hi with
       | 1%nat, Some 1%nat => x
       | O, Some 1%nat =>
           match x with Exact ws => Exact ([] :: ws) | Pre _ _ => no_info end
       | O, _ => no_info
       | S _, _ => Pre (prefs x) (flush x)
       end) (concat ts).
Proof.
  intros Hlo Hhi Hlen HF. subst n.
  destruct lo as [|[|lo]]; destruct hi as [[|[|h]]|]; cbn beta iota;
    try apply sem_no_info;
    try (apply rep_plus; [lia|assumption]);
    try (apply rep_one; [lia|assumption]);
    try (apply rep_opt; [lia|assumption]).
Qed.

(* ------------------------------------------------------------------ *)
(* normalisation                                                       *)
(* ------------------------------------------------------------------ *)

Lemma NormOf_nil ci lower1 t : NormOf ci lower1 [] t -> t = [].
Proof.
  unfold NormOf. destruct ci.
  - intros [outs [HF Ht]]. inversion HF; subst. reflexivity.
  - intros Ht; exact Ht.
Qed.

Lemma NormOf_app_inv ci lower1 a b t :
  NormOf ci lower1 (a ++ b) t ->
  exists ta tb, t = ta ++ tb /\ NormOf ci lower1 a ta /\ NormOf ci lower1 b tb.
Proof.
  unfold NormOf. destruct ci.
  - intros [outs [HF Ht]].
    apply Forall2_app_inv_l in HF as [o1 [o2 [H1 [H2 Ho]]]]. subst outs t.
    exists (concat o1), (concat o2). rewrite concat_app. split; [reflexivity|].
    split; [exists o1|exists o2]; split; auto.
  - intros Ht. exists a, b. subst t. auto.
Qed.

Lemma NormOf_single_ci lower1 x t :
  NormOf true lower1 [x] t -> lower_char_ok lower1 x t.
Proof.
  unfold NormOf. intros [outs [HF Ht]].
  inversion HF as [|x' o l1 outs' Hok HF']; subst.
  inversion HF'; subst. cbn [concat]. rewrite app_nil_r. exact Hok.
Qed.

(* ------------------------------------------------------------------ *)
(* single-character patterns                                           *)
(* ------------------------------------------------------------------ *)

Lemma lit_mem_class U absent c x :
  lit_mem U true c x = true -> absent x = false -> In x (lit_class U true absent c).
Proof.
  intros Hm Ha. unfold lit_class. apply filter_In. split.
  - unfold lit_mem in Hm. apply orb_true_iff in Hm as [Hm|Hm].
    + apply N.eqb_eq in Hm. left. symmetry. exact Hm.
    + right. apply existsb_exists in Hm as [d [Hd He]].
      apply N.eqb_eq in He. subst d. exact Hd.
  - rewrite Ha. reflexivity.
Qed.

Lemma lit_sound U ci lower1 absent s c i x t :
  clean absent s -> nth_error s i = Some x -> lit_mem U ci c x = true ->
  NormOf ci lower1 (slice s i (S i)) t -> sem (lit_info U ci lower1 absent c) t.
Proof.
  intros Hc Hn Hm HN. rewrite (slice_single _ _ _ Hn) in HN.
  unfold lit_info. destruct ci.
  - cbv zeta.
    destruct (existsb (N.eqb SIGMA) (lit_class U true absent c)) eqn:E; [apply sem_no_info|].
    assert (Hin : In x (lit_class U true absent c)).
    { apply lit_mem_class; [exact Hm|]. eapply clean_nth; eassumption. }
    assert (Hx : x <> SIGMA).
    { intros Hx. subst x.
      assert (Ht : existsb (N.eqb SIGMA) (lit_class U true absent c) = true).
      { apply existsb_exists. exists SIGMA. split; [exact Hin|apply N.eqb_refl]. }
      congruence. }
    apply NormOf_single_ci in HN. destruct HN as [Ht|[Heq _]]; [|contradiction].
    subst t. cbn [sem]. apply in_map. exact Hin.
  - unfold NormOf in HN. subst t. unfold lit_mem in Hm.
    rewrite orb_false_r in Hm. apply N.eqb_eq in Hm. subst x.
    cbn [sem]. left. reflexivity.
Qed.

Lemma set_sound U ci lower1 s neg items i x t :
  nth_error s i = Some x -> set_mem U ci neg items x = true ->
  NormOf ci lower1 (slice s i (S i)) t -> sem (set_info ci neg items) t.
Proof.
  intros Hn Hm HN. rewrite (slice_single _ _ _ Hn) in HN.
  unfold set_info. destruct ci; cbn [orb]; [apply sem_no_info|].
  destruct neg; [apply sem_no_info|].
  destruct (_ && _) eqn:E; [|apply sem_no_info].
  apply andb_true_iff in E as [_ Hall].
  unfold NormOf in HN. subst t.
  unfold set_mem, items_mem in Hm. rewrite xorb_false_l in Hm.
  apply existsb_exists in Hm as [it [Hit Hmem]].
  rewrite forallb_forall in Hall. specialize (Hall it Hit).
  destruct it as [d|lo hi|k]; try discriminate.
  cbn [item_mem] in Hmem. apply N.eqb_eq in Hmem. subst x.
  cbn [sem]. apply in_map_iff. exists (SLit d). split; [reflexivity|exact Hit].
Qed.

(* ------------------------------------------------------------------ *)
(* positions of matches                                                *)
(* ------------------------------------------------------------------ *)

Lemma M_MN_bounds U ci s :
  (forall r i j, M U ci s r i j -> i <= j /\ j <= length s) /\
  (forall r n i j, MN U ci s r n i j -> i <= j /\ j <= length s).
Proof.
  apply (M_MN_ind U ci s (fun _ i j => i <= j /\ j <= length s)
                         (fun _ _ i j => i <= j /\ j <= length s));
    intros;
    repeat match goal with
           | H : nth_error _ _ = Some _ |- _ => apply nth_lt in H
           end; lia.
Qed.

(* ------------------------------------------------------------------ *)
(* soundness of the analysis                                           *)
(* ------------------------------------------------------------------ *)

Lemma analyse_sound_mut U ci lower1 absent s (Hc : clean absent s) :
  (forall r i j, M U ci s r i j ->
     forall t, NormOf ci lower1 (slice s i j) t -> sem (analyse U ci lower1 absent r) t) /\
  (forall r n i j, MN U ci s r n i j ->
     forall t, NormOf ci lower1 (slice s i j) t ->
     exists ts, t = concat ts /\ length ts = n /\
                Forall (sem (analyse U ci lower1 absent r)) ts).
Proof.
  apply (M_MN_ind U ci s
    (fun r i j => forall t, NormOf ci lower1 (slice s i j) t ->
                            sem (analyse U ci lower1 absent r) t)
    (fun r n i j => forall t, NormOf ci lower1 (slice s i j) t ->
       exists ts, t = concat ts /\ length ts = n /\
                  Forall (sem (analyse U ci lower1 absent r)) ts)).
  - (* Eps *) intros i Hi t HN. rewrite slice_nil in HN. apply NormOf_nil in HN. subst t.
    cbn [analyse sem]. left. reflexivity.
  - (* Lit *) intros c i x Hn Hm t HN. cbn [analyse]. eapply lit_sound; eassumption.
  - (* NotLit *) intros c i x Hn Hm t HN. cbn [analyse]. apply sem_no_info.
  - (* Any *) intros i x Hn Hx t HN. cbn [analyse]. apply sem_no_info.
  - (* Set *) intros neg items i x Hn Hm t HN. cbn [analyse]. eapply set_sound; eassumption.
  - (* Bol *) intros t HN. rewrite slice_nil in HN. apply NormOf_nil in HN. subst t.
    cbn [analyse sem]. left. reflexivity.
  - (* Eol *) intros i Hi He t HN. rewrite slice_nil in HN. apply NormOf_nil in HN. subst t.
    cbn [analyse sem]. left. reflexivity.
  - (* WordB *) intros i Hi He t HN. rewrite slice_nil in HN. apply NormOf_nil in HN. subst t.
    cbn [analyse sem]. left. reflexivity.
  - (* Cat *) intros a b i j k Ha IHa Hb IHb t HN.
    destruct (proj1 (M_MN_bounds U ci s) _ _ _ Ha) as [Hij _].
    destruct (proj1 (M_MN_bounds U ci s) _ _ _ Hb) as [Hjk _].
    rewrite <- (slice_app s i j k Hij Hjk) in HN.
    apply NormOf_app_inv in HN as [ta [tb [Ht [Na Nb]]]]. subst t.
    cbn [analyse]. apply combine_sound; auto.
  - (* AltL *) intros a b i j Ha IHa t HN. cbn [analyse]. apply alt_sound. left. auto.
  - (* AltR *) intros a b i j Hb IHb t HN. cbn [analyse]. apply alt_sound. right. auto.
  - (* Group *) intros n r i j Hr IHr t HN. cbn [analyse]. auto.
  - (* Rep *) intros lo hi r n i j Hlo Hhi HMN IH t HN.
    destruct (IH t HN) as [ts [Ht [Hlen HF]]]. subst t.
    cbn [analyse]. exact (rep_sound _ lo hi n ts Hlo Hhi Hlen HF).
  - (* Look *) intros r i j Hr IHr t HN. rewrite slice_nil in HN. apply NormOf_nil in HN.
    subst t. cbn [analyse sem]. left. reflexivity.
  - (* MN0 *) intros r i Hi t HN. rewrite slice_nil in HN. apply NormOf_nil in HN. subst t.
    exists []. split; [reflexivity|]. split; [reflexivity|constructor].
  - (* MNS *) intros r n i j k Hr IHr HMN IHMN t HN.
    destruct (proj1 (M_MN_bounds U ci s) _ _ _ Hr) as [Hij _].
    destruct (proj2 (M_MN_bounds U ci s) _ _ _ _ HMN) as [Hjk _].
    rewrite <- (slice_app s i j k Hij Hjk) in HN.
    apply NormOf_app_inv in HN as [ta [tb [Ht [Na Nb]]]]. subst t.
    destruct (IHMN tb Nb) as [ts [Htb [Hlen HF]]]. subst tb.
    exists (ta :: ts). split; [reflexivity|]. split; [cbn [length]; lia|].
    constructor; auto.
Qed.

(* ------------------------------------------------------------------ *)
(* the theorems                                                        *)
(* ------------------------------------------------------------------ *)

Section Sound.
  Variable U : utables.
  Variable ci : bool.
  Variable lower1 : N -> str.
  Variable absent : N -> bool.

  Theorem M_bounds : forall s r i j, M U ci s r i j -> i <= j /\ j <= length s.
  Proof. intros s r i j H. exact (proj1 (M_MN_bounds U ci s) r i j H). Qed.

  Theorem holds_mono : forall c t t', holds c t -> infix t t' -> holds c t'.
  Proof. exact holds_mono_gen. Qed.

  Theorem flush_sound : forall i t, sem i t -> holds (flush i) t.
  Proof. exact flush_sound_gen. Qed.

  Theorem implies_any_sound : forall lits c t,
    implies_any lits c = true -> holds c t -> exists l, In l lits /\ infix l t.
  Proof. exact implies_any_sound_gen. Qed.

  (* the analysis is sound: every match of r, normalised, satisfies the info
     computed for r *)
  Theorem analyse_sound : forall s r i j t,
    clean absent s -> M U ci s r i j -> NormOf ci lower1 (slice s i j) t ->
    sem (analyse U ci lower1 absent r) t.
  Proof.
    intros s r i j t Hc HM HN.
    exact (proj1 (analyse_sound_mut U ci lower1 absent s Hc) r i j HM t HN).
  Qed.

  (* hence: if the check passes, every text in which r matches anywhere
     contains one of the literals after normalisation *)
  Theorem literal_check_sound : forall r lits s i j T,
    clean absent s -> literal_check U ci lower1 absent r lits = true ->
    M U ci s r i j -> NormOf ci lower1 s T ->
    exists l, In l lits /\ infix l T.
  Proof.
    intros r lits s i j T Hc Hchk HM HN.
    destruct (M_bounds s r i j HM) as [Hij Hjl].
    assert (Hs : NormOf ci lower1 ((firstn i s ++ slice s i j) ++ skipn j s) T).
    { rewrite (firstn_slice_skipn s i j Hij). rewrite firstn_skipn. exact HN. }
    apply NormOf_app_inv in Hs as [tab [tc [HT [Hab _]]]].
    apply NormOf_app_inv in Hab as [ta [tb [Htab [_ Hb]]]]. subst tab T.
    pose proof (analyse_sound s r i j tb Hc HM Hb) as Hsem.
    apply flush_sound in Hsem.
    unfold literal_check in Hchk.
    eapply implies_any_sound; [exact Hchk|].
    eapply holds_mono; [exact Hsem|apply infix_app_mid].
  Qed.
End Sound.
