(* Regex/ShapeSound2.v -- soundness of the boolean equality on patterns and of
   the template recogniser `shape`; the per-row reflection check of Regex/Shape.v
   therefore yields recognition of the minimal written forms (C01). *)
From EV Require Import Base.Str Regex.Syntax Regex.Decl Regex.Shape Regex.ShapeSound.

Lemma cat_eqb_eq : forall a b, cat_eqb a b = true -> a = b.
Proof. intros [] []; cbn; intros H; try discriminate; reflexivity. Qed.

Lemma setitem_eqb_eq : forall a b, setitem_eqb a b = true -> a = b.
Proof.
  intros [c|lo hi|k] [c'|lo' hi'|k']; cbn [setitem_eqb]; intros H; try discriminate.
  - apply N.eqb_eq in H. congruence.
  - apply andb_true_iff in H. destruct H as [H1 H2].
    apply N.eqb_eq in H1. apply N.eqb_eq in H2. congruence.
  - apply cat_eqb_eq in H. congruence.
Qed.

Lemma list_eqb_eq {A} (eqb : A -> A -> bool) :
  (forall x y, eqb x y = true -> x = y) ->
  forall a b, list_eqb eqb a b = true -> a = b.
Proof.
  intros Heq. induction a as [|x a IH]; intros [|y b] H; cbn [list_eqb] in H; try discriminate.
  - reflexivity.
  - apply andb_true_iff in H. destruct H as [H1 H2].
    apply Heq in H1. apply IH in H2. congruence.
Qed.

Lemma optnat_eqb_eq : forall a b, optnat_eqb a b = true -> a = b.
Proof.
  intros [x|] [y|]; cbn [optnat_eqb]; intros H; try discriminate.
  - apply Nat.eqb_eq in H. congruence.
  - reflexivity.
Qed.

(* the boolean equality on patterns is sound *)
Theorem re_eqb_eq : forall a b, re_eqb a b = true -> a = b.
Proof.
  induction a as [| |c|c| |neg items| | | |a1 IH1 a2 IH2|a1 IH1 a2 IH2|idx a IH|lo hi a IH|a IH];
    intros b H; destruct b; cbn [re_eqb] in H; try discriminate; try reflexivity.
  - (* Lit *) apply N.eqb_eq in H. congruence.
  - (* NotLit *) apply N.eqb_eq in H. congruence.
  - (* Set_ *) apply andb_true_iff in H. destruct H as [H1 H2].
    apply Bool.eqb_prop in H1. apply (list_eqb_eq _ setitem_eqb_eq) in H2. congruence.
  - (* Cat *) apply andb_true_iff in H. destruct H as [H1 H2].
    apply IH1 in H1. apply IH2 in H2. congruence.
  - (* Alt *) apply andb_true_iff in H. destruct H as [H1 H2].
    apply IH1 in H1. apply IH2 in H2. congruence.
  - (* Group *) apply andb_true_iff in H. destruct H as [H1 H2].
    apply Nat.eqb_eq in H1. apply IH in H2. congruence.
  - (* Rep *) apply andb_true_iff in H. destruct H as [H12 H3].
    apply andb_true_iff in H12. destruct H12 as [H1 H2].
    apply Nat.eqb_eq in H1. apply optnat_eqb_eq in H2. apply IH in H3. congruence.
  - (* Look *) apply IH in H. congruence.
Qed.

(* the recogniser is sound: a recognised pattern IS the template *)
Theorem shape_sound : forall r alts page_rest short,
  shape r = Some (alts, page_rest, short) -> r = full_cite_tpl alts page_rest short.
Proof.
  intros r alts page_rest short H. unfold shape in H.
  repeat match type of H with
         | (if re_eqb ?x ?y then _ else _) = Some _ =>
             let E := fresh "E" in
             destruct (re_eqb x y) eqn:E; [|discriminate H]
         | match ?x with _ => _ end = Some _ => destruct x; try discriminate H
         end.
  injection H as H1 H2 H3. subst alts page_rest short.
  apply re_eqb_eq. assumption.
Qed.

Lemma row_shape_ok_accepts : forall U r strings alts page_rest short R,
  shape r = Some (alts, page_rest, short) -> row_shape_ok U r strings = true -> In R strings ->
  accepts U alts R = true.
Proof.
  intros U r strings alts page_rest short R Hs Hrow Hin.
  unfold row_shape_ok in Hrow. rewrite Hs in Hrow.
  rewrite forallb_forall in Hrow. apply Hrow; exact Hin.
Qed.

(* hence: every registered reporter string accepted by the reporter group of a
   recognised extractor is recognised in its minimal written forms, in every
   neutral context *)
Theorem recognised_row : forall U r strings alts page_rest short R pre v comma p post,
  shape r = Some (alts, page_rest, short) -> row_shape_ok U r strings = true -> In R strings ->
  volume_ok U v -> page_ok U p -> (comma = [] \/ comma = [44%N]) -> before_ok pre -> after_ok post ->
  let core := written v R comma short p in
  let text := pre ++ core ++ post in
  M U false text (body_tpl alts page_rest short) (length pre) (length pre + length core) /\
  exists a b, M U false text r a b /\
              (a <= length pre)%nat /\ (length pre + length core <= b)%nat /\ (b <= a + length core + 2)%nat.
Proof.
  intros U r strings alts page_rest short R pre v comma p post Hs Hrow Hin Hv Hp Hc Hpre Hpost.
  rewrite (shape_sound r alts page_rest short Hs).
  apply full_cite_recognised; try assumption.
  eapply row_shape_ok_accepts; eassumption.
Qed.

Print Assumptions re_eqb_eq.
Print Assumptions shape_sound.
Print Assumptions recognised_row.
