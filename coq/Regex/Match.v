(* Regex/Match.v -- an executable backtracking matcher with Python's priorities
   (leftmost alternative first, greedy repetition, captures of the successful
   path) for the constructs of Regex/Syntax.v.  Continuation-passing, structural
   on the pattern; repetition loops run on explicit fuel. *)
From EV Require Import Base.Str Regex.Syntax Regex.Decl.

Definition caps := list (nat * (nat * nat)).      (* group number -> span, most recent first *)
Definition mresult := (nat * caps)%type.          (* end position, captures *)

Fixpoint cap_get (n : nat) (c : caps) : option (nat * nat) :=
  match c with
  | [] => None
  | (m, sp) :: r => if Nat.eqb n m then Some sp else cap_get n r
  end.

Section Engine.
  Variable U : utables.
  Variable ci : bool.
  Variable s : str.

  Definition K := nat -> caps -> option mresult.

  (* greedy repetition of `body`; count = iterations done; last = where the previous iteration
     started.  Once the minimum is reached, another iteration is attempted only if the previous one
     advanced (sre's protection against looping on empty matches: one empty iteration is allowed,
     a second consecutive one is not) *)
  Definition same_pos (last : option nat) (i : nat) : bool :=
    match last with Some l => Nat.eqb l i | None => false end.

  Fixpoint rep (body : nat -> caps -> K -> option mresult) (lo : nat) (hi : option nat)
           (fuel count : nat) (last : option nat) (i : nat) (c : caps) (k : K) : option mresult :=
    match fuel with
    | O => None
    | S f =>
        let more :=
          if match hi with Some h => (count <? h)%nat | None => true end
             && ((count <? lo)%nat || negb (same_pos last i)) then
            body i c (fun j c' => rep body lo hi f (S count) (Some i) j c' k)
          else None in
        match more with
        | Some r => Some r
        | None => if (lo <=? count)%nat then k i c else None
        end
    end.

  Fixpoint m (r : re) (i : nat) (c : caps) (k : K) {struct r} : option mresult :=
    match r with
    | Eps => k i c
    | Fail => None
    | Lit ch => match nth_error s i with
                | Some x => if lit_mem U ci ch x then k (S i) c else None
                | None => None
                end
    | NotLit ch => match nth_error s i with
                   | Some x => if lit_mem U ci ch x then None else k (S i) c
                   | None => None
                   end
    | Any => match nth_error s i with
             | Some x => if N.eqb x 10 then None else k (S i) c
             | None => None
             end
    | Set_ neg items => match nth_error s i with
                        | Some x => if set_mem U ci neg items x then k (S i) c else None
                        | None => None
                        end
    | Bol => if Nat.eqb i 0 then k i c else None
    | Eol => if at_eol s i then k i c else None
    | WordB => if word_boundary U s i then k i c else None
    | Cat a b => m a i c (fun j c' => m b j c' k)
    | Alt a b => match m a i c k with
                 | Some r => Some r
                 | None => m b i c k
                 end
    | Group n r' => m r' i c (fun j c' => k j ((n, (i, j)) :: c'))
    | Rep lo hi r' =>
        rep (fun i' c' k' => m r' i' c' k') lo hi (S (S (length s - i)) + lo) 0 None i c k
    | Look r' => match m r' i c (fun j c' => Some (j, c')) with
                 | Some _ => k i c
                 | None => None
                 end
    end.

  Definition match_at (r : re) (i : nat) : option mresult := m r i [] (fun j c => Some (j, c)).

  (* re.search: leftmost start *)
  Fixpoint search_from (r : re) (fuel i : nat) : option (nat * nat * caps) :=
    match fuel with
    | O => None
    | S f =>
        match match_at r i with
        | Some (j, c) => Some (i, j, c)
        | None => if (i <? length s)%nat then search_from r f (S i) else None
        end
    end.
  Definition search (r : re) : option (nat * nat * caps) := search_from r (S (length s)) 0.
End Engine.
