(* Regex/DeclCap.v -- declarative semantics WITH captures:
     MC s r i c j c'  =  "r matches s from i to j, turning the capture list c into c'"
   (captures most recent first, as in Regex/Match.v).  Independent of backtracking
   priorities.  Statements only; proofs in Regex/DeclCapSound.v.

   On top of it, static analyses of a pattern that the metadata regexes of
   eyecite/regexes.py must pass for the offset arithmetic of helpers.py to be right
   (Proofs/PipeSpec.v: search_ok, defyear_ok, tok_ok): they are decided by the kernel
   on the regenerated ASTs (Gen/MetaRegex.v, Gen/Extractors_NN.v). *)
From EV Require Import Base.Str Regex.Syntax Regex.Decl Regex.Match.

Section DeclCap.
  Variable U : utables.
  Variable ci : bool.

  Inductive MC (s : str) : re -> nat -> caps -> nat -> caps -> Prop :=
  | CEps : forall i c, i <= length s -> MC s Eps i c i c
  | CLit : forall ch i x c, nth_error s i = Some x -> lit_mem U ci ch x = true -> MC s (Lit ch) i c (S i) c
  | CNotLit : forall ch i x c, nth_error s i = Some x -> lit_mem U ci ch x = false -> MC s (NotLit ch) i c (S i) c
  | CAny : forall i x c, nth_error s i = Some x -> N.eqb x 10 = false -> MC s Any i c (S i) c
  | CSet : forall neg items i x c, nth_error s i = Some x -> set_mem U ci neg items x = true ->
                                   MC s (Set_ neg items) i c (S i) c
  | CBol : forall c, MC s Bol 0 c 0 c
  | CEol : forall i c, i <= length s -> at_eol s i = true -> MC s Eol i c i c
  | CWordB : forall i c, i <= length s -> word_boundary U s i = true -> MC s WordB i c i c
  | CCat : forall a b i j k c c1 c2, MC s a i c j c1 -> MC s b j c1 k c2 -> MC s (Cat a b) i c k c2
  | CAltL : forall a b i j c c', MC s a i c j c' -> MC s (Alt a b) i c j c'
  | CAltR : forall a b i j c c', MC s b i c j c' -> MC s (Alt a b) i c j c'
  | CGroup : forall n r i j c c', MC s r i c j c' -> MC s (Group n r) i c j ((n, (i, j)) :: c')
  | CRep : forall lo hi r n i j c c',
      lo <= n -> match hi with Some h => n <= h | None => True end ->
      MCN s r n i c j c' -> MC s (Rep lo hi r) i c j c'
  (* a lookahead leaves position and captures unchanged (Match.v discards the inner captures) *)
  | CLook : forall r i j c c', MC s r i c j c' -> MC s (Look r) i c i c
  with MCN (s : str) : re -> nat -> nat -> caps -> nat -> caps -> Prop :=
  | CN0 : forall r i c, i <= length s -> MCN s r 0 i c i c
  | CNS : forall r n i j k c c1 c2, MC s r i c j c1 -> MCN s r n j c1 k c2 -> MCN s r (S n) i c k c2.

  Scheme MC_ind2 := Minimality for MC Sort Prop
    with MCN_ind2 := Minimality for MCN Sort Prop.
  Combined Scheme MC_MCN_ind from MC_ind2, MCN_ind2.
End DeclCap.

(* ------------------------------------------------------------------ *)
(* static analyses (all conservative: false = "do not know")           *)
(* ------------------------------------------------------------------ *)

(* the pattern can only match the empty string / zero width *)
Fixpoint nullable_only (r : re) : bool :=
  match r with
  | Eps | Bol | Eol | WordB | Look _ => true
  | Cat a b => nullable_only a && nullable_only b
  | Alt a b => nullable_only a && nullable_only b
  | Group _ a => nullable_only a
  | Rep _ hi a => nullable_only a || match hi with Some O => true | _ => false end
  | _ => false
  end.

(* (minimum length of a match: Regex/CapBody.v:minlen) *)

(* does group n occur in r? *)
Fixpoint mentions (n : nat) (r : re) : bool :=
  match r with
  | Group k a => Nat.eqb k n || mentions n a
  | Cat a b | Alt a b => mentions n a || mentions n b
  | Rep _ _ a | Look a => mentions n a
  | _ => false
  end.

(* every match of r sets group n (a NEW entry for n is pushed) *)
Fixpoint always_sets (n : nat) (r : re) : bool :=
  match r with
  | Group k a => Nat.eqb k n || always_sets n a
  | Cat a b => always_sets n a || always_sets n b
  | Alt a b => always_sets n a && always_sets n b
  | Rep lo _ a => (0 <? lo)%nat && always_sets n a
  | _ => false
  end.

(* whenever a match of r pushes a new entry for group n, the most recent such entry starts at the
   start of the match of r *)
Fixpoint starts_at_begin (n : nat) (r : re) : bool :=
  match r with
  | Group k a => if Nat.eqb k n then negb (mentions n a) else starts_at_begin n a
  | Cat a b =>
      (* n only in a (then b must not mention it), or a is zero-width and n only in b *)
      (negb (mentions n b) && starts_at_begin n a) ||
      (negb (mentions n a) && nullable_only a && starts_at_begin n b)
  | Alt a b => starts_at_begin n a && starts_at_begin n b
  | Rep _ hi a => negb (mentions n a) || (match hi with Some 1 => true | _ => false end && starts_at_begin n a)
  | Look a => true
  | _ => true
  end.

(* ... ends at the end of the match of r *)
Fixpoint ends_at_end (n : nat) (r : re) : bool :=
  match r with
  | Group k a => if Nat.eqb k n then negb (mentions n a) else ends_at_end n a
  | Cat a b =>
      (negb (mentions n a) && ends_at_end n b) ||
      (negb (mentions n b) && nullable_only b && ends_at_end n a)
  | Alt a b => ends_at_end n a && ends_at_end n b
  | Rep _ hi a => negb (mentions n a) || (match hi with Some 1 => true | _ => false end && ends_at_end n a)
  | Look a => true
  | _ => true
  end.

(* every new entry of group n pushed by a match of r from i to j lies at or before every new entry
   of the other groups listed in `later`... kept for a later round *)

(* the value cap_get sees: most recent entry *)
Definition new_entry (c c' : caps) (n : nat) (sp : nat * nat) : Prop :=
  exists pre, c' = pre ++ c /\ cap_get n pre = Some sp.

(* the pattern matches (possibly the empty string) at every position, whatever follows:
   sufficient for "re.match(pattern, w) is never None" *)
Fixpoint always_matches (r : re) : bool :=
  match r with
  | Eps => true
  | Rep O _ _ => true
  | Cat a b => always_matches a && always_matches b
  | Alt a b => always_matches a || always_matches b
  | Group _ a => always_matches a
  | Look a => always_matches a
  | _ => false
  end.
