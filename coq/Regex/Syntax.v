(* Regex/Syntax.v -- abstract syntax of the regular expressions that eyecite
   uses, as CPython's re._parser reads them (census in DESIGN.md 3.2).
   Sequences and alternations are right-nested binary nodes (the translator
   flattens CPython's lists). *)
From EV Require Import Base.Str.

Inductive cat := CDigit | CNotDigit | CSpace | CNotSpace | CWord | CNotWord.

Inductive setitem :=
| SLit (c : N)
| SRange (lo hi : N)
| SCat (k : cat).

Inductive re :=
| Eps                                   (* empty sequence *)
| Fail                                  (* empty alternation; never produced by the translator *)
| Lit (c : N)
| NotLit (c : N)
| Any                                   (* "." without DOTALL: anything but \n *)
| Set_ (neg : bool) (items : list setitem)
| Bol | Eol                             (* ^ and $ (no MULTILINE) *)
| WordB                                 (* \b *)
| Cat (a b : re)
| Alt (a b : re)
| Group (idx : nat) (r : re)            (* capturing group number idx *)
| Rep (lo : nat) (hi : option nat) (r : re)   (* greedy {lo,hi}; None = unbounded *)
| Look (r : re).                        (* positive look-ahead *)

(* Unicode tables the character classes depend on; instantiated from Gen/Unicode.v *)
Record utables := {
  u_digit : list (N * N);      (* \d  (Nd) *)
  u_space : list (N * N);      (* \s *)
  u_word  : list (N * N);      (* \w *)
  u_fold  : N -> list N        (* case-insensitive equivalence class of a character
                                  under re.IGNORECASE, as a list containing the character *)
}.

Section Classes.
  Variable U : utables.

  Definition cat_mem (k : cat) (c : N) : bool :=
    match k with
    | CDigit => in_ranges (u_digit U) c
    | CNotDigit => negb (in_ranges (u_digit U) c)
    | CSpace => in_ranges (u_space U) c
    | CNotSpace => negb (in_ranges (u_space U) c)
    | CWord => in_ranges (u_word U) c
    | CNotWord => negb (in_ranges (u_word U) c)
    end.

  Definition item_mem (it : setitem) (c : N) : bool :=
    match it with
    | SLit d => N.eqb c d
    | SRange lo hi => N.leb lo c && N.leb c hi
    | SCat k => cat_mem k c
    end.

  (* membership of a character in a set; under IGNORECASE (ci) a character is
     in the set when any member of its case class is (CPython: sre lower/upper
     iteration over the class) *)
  Definition items_mem (ci : bool) (items : list setitem) (c : N) : bool :=
    if ci then existsb (fun d => existsb (fun it => item_mem it d) items) (c :: u_fold U c)
    else existsb (fun it => item_mem it c) items.

  Definition set_mem (ci : bool) (neg : bool) (items : list setitem) (c : N) : bool :=
    xorb neg (items_mem ci items c).

  Definition lit_mem (ci : bool) (l c : N) : bool :=
    N.eqb c l || (if ci then existsb (N.eqb c) (u_fold U l) else false).
End Classes.

(* decidable equality on patterns (used by kernel-side shape recognisers) *)
Definition cat_eqb (a b : cat) : bool :=
  match a, b with
  | CDigit, CDigit | CNotDigit, CNotDigit | CSpace, CSpace
  | CNotSpace, CNotSpace | CWord, CWord | CNotWord, CNotWord => true
  | _, _ => false
  end.

Definition setitem_eqb (a b : setitem) : bool :=
  match a, b with
  | SLit x, SLit y => N.eqb x y
  | SRange a1 a2, SRange b1 b2 => N.eqb a1 b1 && N.eqb a2 b2
  | SCat x, SCat y => cat_eqb x y
  | _, _ => false
  end.

Fixpoint list_eqb {A} (eqb : A -> A -> bool) (a b : list A) : bool :=
  match a, b with
  | [], [] => true
  | x :: a', y :: b' => eqb x y && list_eqb eqb a' b'
  | _, _ => false
  end.

Definition optnat_eqb (a b : option nat) : bool :=
  match a, b with
  | None, None => true
  | Some x, Some y => Nat.eqb x y
  | _, _ => false
  end.

Fixpoint re_eqb (a b : re) : bool :=
  match a, b with
  | Eps, Eps | Fail, Fail | Any, Any | Bol, Bol | Eol, Eol | WordB, WordB => true
  | Lit x, Lit y | NotLit x, NotLit y => N.eqb x y
  | Set_ n1 i1, Set_ n2 i2 => Bool.eqb n1 n2 && list_eqb setitem_eqb i1 i2
  | Cat a1 a2, Cat b1 b2 | Alt a1 a2, Alt b1 b2 => re_eqb a1 b1 && re_eqb a2 b2
  | Group i r, Group j s => Nat.eqb i j && re_eqb r s
  | Rep l1 h1 r, Rep l2 h2 s => Nat.eqb l1 l2 && optnat_eqb h1 h2 && re_eqb r s
  | Look r, Look s => re_eqb r s
  | _, _ => false
  end.

(* a pattern that matches exactly one character: its class *)
Definition single_class (U : utables) (ci : bool) (r : re) : option (N -> bool) :=
  match r with
  | Lit c => Some (lit_mem U ci c)
  | NotLit c => Some (fun d => negb (lit_mem U ci c d))
  | Set_ neg items => Some (set_mem U ci neg items)
  | _ => None
  end.

(* "CLASS{k,}" possibly written as CLASS CLASS{k-1,} (e.g. "__+") *)
Definition as_run_pattern (U : utables) (ci : bool) (r : re) : option ((N -> bool) * nat) :=
  match r with
  | Rep k None x =>
      match single_class U ci x with Some P => Some (P, k) | None => None end
  | Cat x (Rep k None y) =>
      if re_eqb x y then
        match single_class U ci x with Some P => Some (P, S k) | None => None end
      else None
  | _ => None
  end.

(* a literal string as a sequence of Lit nodes (the translator emits runs of
   literals through this function to keep generated files small) *)
Fixpoint lits (s : str) : re :=
  match s with
  | [] => Eps
  | [c] => Lit c
  | c :: t => Cat (Lit c) (lits t)
  end.
