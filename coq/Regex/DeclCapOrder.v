(* Regex/DeclCapOrder.v -- order analyses on top of the declarative semantics with captures
   (Regex/DeclCap.v): group-free patterns leave the captures alone, and `last_group n r`:
   whenever a match of r gives group n a new most-recent entry (a, b), every OTHER group's new
   most-recent entry ends at or before a, and (strict form) something is consumed after b.
   Sound against MC; decided by the kernel on the regenerated ASTs. *)
From EV Require Import Base.Str Regex.Syntax Regex.Decl Regex.Match Regex.MatchSound.
From EV Require Import Regex.CapBody Regex.DeclCap Regex.DeclCapSound.

(* no capturing group anywhere (same as Model/Extract.v:has_group, kept here so that Regex/ does
   not depend on Model/) *)
Fixpoint groupless (r : re) : bool :=
  match r with
  | Group _ _ => false
  | Cat a b | Alt a b => groupless a && groupless b
  | Rep _ _ a | Look a => groupless a
  | _ => true
  end.

(* strict = true additionally demands that the match of r extends beyond the end of n's entry *)
Fixpoint last_group (strict : bool) (n : nat) (r : re) : bool :=
  match r with
  | Group k u =>
      if Nat.eqb k n then negb strict && groupless u
      else negb (mentions n u)
  | Cat u v =>
      (* n only in v: the groups of u end at or before the split point, which is <= a *)
      (negb (mentions n u) && last_group strict n v) ||
      (* n only in u and v pushes nothing; if v consumes something the strictness is paid for *)
      (negb (mentions n v) && groupless v &&
       last_group (strict && Nat.eqb (minlen v) 0) n u)
  | Alt u v => last_group strict n u && last_group strict n v
  | Rep _ hi u =>
      negb (mentions n u) ||
      (match hi with Some 1 => true | _ => false end && last_group strict n u)
  | _ => true
  end.

Section S.
  Variable U : utables.
  Variable ci : bool.
  Variable s : str.

  Lemma cap_get_in' : forall n c a b, cap_get n c = Some (a, b) -> In (n, (a, b)) c.
  Proof.
    intros n c. induction c as [|[k sp] c IH]; intros a b H; cbn [cap_get] in H; [discriminate|].
    destruct (Nat.eqb_spec n k) as [He|Hne].
    - injection H as H. subst. left. reflexivity.
    - right. apply IH. exact H.
  Qed.

  Lemma groupless_MC_MCN :
    (forall r i c j c', MC U ci s r i c j c' -> groupless r = true -> c' = c) /\
    (forall r n i c j c', MCN U ci s r n i c j c' -> groupless r = true -> c' = c).
  Proof.
    apply MC_MCN_ind; try (intros; reflexivity).
    - intros a b i j k c c1 c2 Ha IHa Hb IHb Hg. cbn [groupless] in Hg.
      apply andb_true_iff in Hg. rewrite (IHb (proj2 Hg)). exact (IHa (proj1 Hg)).
    - intros a b i j c c' H IH Hg. cbn [groupless] in Hg.
      apply andb_true_iff in Hg. exact (IH (proj1 Hg)).
    - intros a b i j c c' H IH Hg. cbn [groupless] in Hg.
      apply andb_true_iff in Hg. exact (IH (proj2 Hg)).
    - intros n r i j c c' H IH Hg. discriminate Hg.
    - intros lo hi r n i j c c' Hlo Hhi HN IHN Hg. exact (IHN Hg).
    - intros r n i j k c c1 c2 H IH HN IHN Hg. rewrite (IHN Hg). exact (IH Hg).
  Qed.

  Theorem groupless_sound : forall r i c j c',
    groupless r = true -> MC U ci s r i c j c' -> c' = c.
  Proof. intros r i c j c' Hg H. exact (proj1 groupless_MC_MCN _ _ _ _ _ H Hg). Qed.

  Lemma minlen_MC : forall r i c j c', MC U ci s r i c j c' -> i + minlen r <= j.
  Proof. intros r i c j c' H. exact (minlen_sound U ci s r i j (MC_M U ci s _ _ _ _ _ H)). Qed.

  Section G.
    Variable g : nat.

    Definition lg_claim (strict : bool) (i : nat) (c : caps) (j : nat) (c' : caps) : Prop :=
      forall pre a b, c' = pre ++ c -> cap_get g pre = Some (a, b) ->
        (strict = true -> b < j) /\
        (forall k x y, k <> g -> cap_get k pre = Some (x, y) -> y <= a).

    Lemma last_group_MC_MCN :
      (forall r i c j c', MC U ci s r i c j c' ->
         forall strict, last_group strict g r = true -> lg_claim strict i c j c') /\
      (forall r n i c j c', MCN U ci s r n i c j c' ->
         forall strict, last_group strict g r = true -> n <= 1 -> lg_claim strict i c j c').
    Proof.
      apply MC_MCN_ind.
      1-8: (intros; intros ? ? ? Hpre Hg; apply app_self_nil in Hpre; rewrite Hpre in Hg; discriminate Hg).
      - (* Cat *)
        intros u v i j k c c1 c2 Hu IHu Hv IHv strict Hs pre a b Hpre Hg.
        cbn [last_group] in Hs.
        destruct (split2 c c1 c2 pre (MC_pre U ci s _ _ _ _ _ Hu) (MC_pre U ci s _ _ _ _ _ Hv) Hpre)
          as [pu [pv [Hpu [Hpv Hp]]]].
        apply orb_true_iff in Hs. destruct Hs as [Hs|Hs].
        + apply andb_true_iff in Hs. destruct Hs as [Hmu Hs]. apply negb_true_iff in Hmu.
          subst pre. rewrite cap_get_app in Hg.
          destruct (cap_get g pv) as [sp|] eqn:Hgv.
          2:{ rewrite (mentions_sound U ci s g _ _ _ _ _ _ Hmu Hu Hpu) in Hg. discriminate. }
          injection Hg as Hg. subst sp.
          destruct (IHv strict Hs pv a b Hpv Hgv) as [Hstrict Hothers].
          split; [exact Hstrict|].
          intros k0 x y Hk Hk0. rewrite cap_get_app in Hk0.
          destruct (cap_get k0 pv) as [sp|] eqn:Hkv.
          * injection Hk0 as Hk0. subst sp. exact (Hothers k0 x y Hk Hkv).
          * (* from u: inside [i, j]; n's entry from v: inside [j, k] *)
            destruct (MC_grows U ci s _ _ _ _ _ Hu) as [pu' [Hpu' Hsu]].
            assert (pu' = pu) by (apply (app_inv_tail c); rewrite <- Hpu', Hpu; reflexivity).
            subst pu'.
            destruct (MC_grows U ci s _ _ _ _ _ Hv) as [pv' [Hpv' Hsv]].
            assert (pv' = pv) by (apply (app_inv_tail c1); rewrite <- Hpv', Hpv; reflexivity).
            subst pv'.
            pose proof (Hsu _ _ _ (cap_get_in' _ _ _ _ Hk0)).
            pose proof (Hsv _ _ _ (cap_get_in' _ _ _ _ Hgv)). lia.
        + apply andb_true_iff in Hs. destruct Hs as [Hs Hsu].
          apply andb_true_iff in Hs. destruct Hs as [Hmv Hgl].
          pose proof (groupless_sound _ _ _ _ _ Hgl Hv) as Hc. rewrite Hc in Hpre.
          destruct (IHu _ Hsu pre a b Hpre Hg) as [Hstrict Hothers].
          split; [|exact Hothers].
          intros Hst. subst strict. cbn [andb] in Hstrict.
          destruct (MC_bounds U ci s _ _ _ _ _ Hv) as [Hjk _].
          destruct (Nat.eqb_spec (minlen v) 0) as [H0|Hpos].
          * specialize (Hstrict eq_refl). lia.
          * pose proof (minlen_MC _ _ _ _ _ Hv).
            destruct (MC_grows U ci s _ _ _ _ _ Hu) as [pu' [Hpu' Hsp]].
            assert (pu' = pre) by (apply (app_inv_tail c); rewrite <- Hpu', Hpre; reflexivity).
            subst pu'.
            pose proof (Hsp _ _ _ (cap_get_in' _ _ _ _ Hg)). lia.
      - intros u v i j c c' H IH strict Hs. cbn [last_group] in Hs.
        apply andb_true_iff in Hs. exact (IH strict (proj1 Hs)).
      - intros u v i j c c' H IH strict Hs. cbn [last_group] in Hs.
        apply andb_true_iff in Hs. exact (IH strict (proj2 Hs)).
      - (* Group *)
        intros n r i j c c' H IH strict Hs pre a b Hpre Hg. cbn [last_group] in Hs.
        destruct (MC_pre U ci s _ _ _ _ _ H) as [pa Hpa].
        assert (pre = (n, (i, j)) :: pa).
        { apply (app_inv_tail c). rewrite <- Hpre, Hpa. reflexivity. }
        subst pre. cbn [cap_get] in Hg. rewrite Nat.eqb_sym in Hg.
        destruct (Nat.eqb_spec n g) as [Hn|Hn].
        + apply andb_true_iff in Hs. destruct Hs as [Hst Hgl].
          apply negb_true_iff in Hst. subst strict.
          pose proof (groupless_sound _ _ _ _ _ Hgl H) as Hc.
          assert (pa = []) by (apply (app_self_nil c); rewrite <- Hpa; symmetry; exact Hc).
          subst pa. injection Hg as <- <-.
          split; [discriminate|].
          intros k x y Hk Hk0. cbn [cap_get] in Hk0.
          destruct (Nat.eqb_spec k n) as [Hkn|_]; [congruence|discriminate].
        + apply negb_true_iff in Hs.
          rewrite (mentions_sound U ci s g _ _ _ _ _ _ Hs H Hpa) in Hg. discriminate.
      - (* Rep *)
        intros lo hi r n i j c c' Hlo Hhi HN IHN strict Hs pre a b Hpre Hg.
        cbn [last_group] in Hs. apply orb_true_iff in Hs. destruct Hs as [Hs|Hs].
        + apply negb_true_iff in Hs.
          rewrite (proj2 (mentions_MC_MCN U ci s g) _ _ _ _ _ _ HN Hs pre Hpre) in Hg. discriminate.
        + apply andb_true_iff in Hs. destruct Hs as [Hh Hs].
          destruct hi as [[|[|h]]|]; try discriminate.
          exact (IHN strict Hs Hhi pre a b Hpre Hg).
      - intros; intros ? ? ? Hpre Hg; apply app_self_nil in Hpre; rewrite Hpre in Hg; discriminate Hg.
      - intros; intros ? ? ? Hpre Hg; apply app_self_nil in Hpre; rewrite Hpre in Hg; discriminate Hg.
      - intros r n i j k c c1 c2 H IH HN IHN strict Hs Hn.
        assert (n = 0) by lia. subst n. destruct (MCN0_inv U ci s _ _ _ _ _ HN) as [-> ->].
        exact (IH strict Hs).
    Qed.

    Theorem last_group_sound : forall strict r i c j c',
      last_group strict g r = true -> MC U ci s r i c j c' ->
      forall pre a b, c' = pre ++ c -> cap_get g pre = Some (a, b) ->
        (strict = true -> b < j) /\
        (forall k x y, k <> g -> cap_get k pre = Some (x, y) -> y <= a).
    Proof.
      intros strict r i c j c' Hs H. exact (proj1 last_group_MC_MCN _ _ _ _ _ H strict Hs).
    Qed.
  End G.
End S.

Print Assumptions groupless_sound.
Print Assumptions last_group_sound.
