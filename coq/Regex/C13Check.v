(* Regex/C13Check.v -- the per-extractor check of C13, run by the kernel over
   the regenerated extractor table (Gen/Extractors_NN.v). *)
From EV Require Import Base.Str Regex.Syntax Regex.Literal Gen.Unicode Gen.Lower.

(* (index in EXTRACTORS, pattern, IGNORECASE, required strings normalised as the filter normalises them) *)
Definition row := (N * re * bool * list str)%type.
Definition row_idx (x : row) : N := fst (fst (fst x)).
Definition row_re (x : row) : re := snd (fst (fst x)).
Definition row_ci (x : row) : bool := snd (fst x).
Definition row_lits (x : row) : list str := snd x.

Definition nothing_absent (c : N) : bool := false.

(* full strength: for every text *)
Definition strict_ok (x : row) : bool :=
  match row_lits x with
  | [] => true      (* extractors without strings always run *)
  | lits => literal_check U (row_ci x) lower1 nothing_absent (row_re x) lits
  end.

(* for texts free of the offending case variants (Gen/Lower.v) *)
Definition partial_ok (x : row) : bool :=
  match row_lits x with
  | [] => true
  | lits => literal_check U (row_ci x) lower1 is_offending (row_re x) lits
  end.

Definition shard_ok (l : list row) : bool := forallb (fun x => strict_ok x || partial_ok x) l.
Definition strict_failures (l : list row) : list N :=
  map row_idx (filter (fun x => negb (strict_ok x)) l).

(* extractors that fail even the partial check: there must be none (Gen/ExtractorsOk_NN.v) *)
Definition partial_failures (l : list row) : list N :=
  map row_idx (filter (fun x => negb (strict_ok x || partial_ok x)) l).

Lemma partial_failures_nil (l : list row) : partial_failures l = [] -> shard_ok l = true.
Proof.
  unfold partial_failures, shard_ok.
  induction l as [|x l IH]; cbn [filter map forallb]; intros H; [reflexivity|].
  destruct (strict_ok x || partial_ok x) eqn:E; cbn [negb] in H.
  - cbn [andb]. apply IH. exact H.
  - cbn [map] in H. discriminate H.
Qed.
