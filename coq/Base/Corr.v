(* Base/Corr.v -- helpers for the correspondence check: the harness writes a
   list of (input, implementation output) pairs; the kernel's VM evaluates the
   model on every input and reports the positions where it differs. *)
From EV Require Import Base.Str.

Fixpoint mismatches_from {A B} (eqb : B -> B -> bool) (f : A -> B)
         (cases : list (A * B)) (i : nat) : list nat :=
  match cases with
  | [] => []
  | (a, b) :: t =>
      if eqb (f a) b then mismatches_from eqb f t (S i)
      else i :: mismatches_from eqb f t (S i)
  end.

Definition mismatches {A B} (eqb : B -> B -> bool) (f : A -> B) (cases : list (A * B)) : list nat :=
  mismatches_from eqb f cases 0.

Definition opt_eqb {A} (eqb : A -> A -> bool) (a b : option A) : bool :=
  match a, b with
  | None, None => true
  | Some x, Some y => eqb x y
  | _, _ => false
  end.

Fixpoint list_eqb {A} (eqb : A -> A -> bool) (a b : list A) : bool :=
  match a, b with
  | [] , [] => true
  | x :: a', y :: b' => eqb x y && list_eqb eqb a' b'
  | _, _ => false
  end.

Definition pair_eqb {A B} (ea : A -> A -> bool) (eb : B -> B -> bool) (a b : A * B) : bool :=
  ea (fst a) (fst b) && eb (snd a) (snd b).
