(* Base/PyVal.v -- results of Python operations that can raise. *)
From EV Require Import Base.Str.

Inductive exn := AttrNone | KeyErr | IndexErr | ValueErr | TypeErr.

Inductive result (A : Type) := Ok (x : A) | Err (e : exn).
Arguments Ok {A} x.
Arguments Err {A} e.

Definition bind {A B} (x : result A) (f : A -> result B) : result B :=
  match x with Ok a => f a | Err e => Err e end.

Notation "'do' x <- a ;; b" := (bind a (fun x => b))
  (at level 200, x pattern, a at level 100, b at level 200).

Definition exn_eqb (a b : exn) : bool :=
  match a, b with
  | AttrNone, AttrNone | KeyErr, KeyErr | IndexErr, IndexErr | ValueErr, ValueErr | TypeErr, TypeErr => true
  | _, _ => false
  end.

Definition result_eqb {A} (eqb : A -> A -> bool) (a b : result A) : bool :=
  match a, b with
  | Ok x, Ok y => eqb x y
  | Err e, Err f => exn_eqb e f
  | _, _ => false
  end.

(* ---- decimal digits: int(), str.isdigit(), \d ---- *)
Record dtables := {
  d_nd : list (N * N);        (* Nd: what int() and \d accept; every range is a block of ten starting at a zero *)
  d_isdigit : list (N * N);   (* str.isdigit *)
  d_maxdigits : N             (* sys.get_int_max_str_digits(): int() refuses longer digit strings *)
}.

Fixpoint range_of (tbl : list (N * N)) (c : N) : option (N * N) :=
  match tbl with
  | [] => None
  | (lo, hi) :: t => if N.leb lo c && N.leb c hi then Some (lo, hi) else range_of t c
  end.

Definition digit_val (D : dtables) (c : N) : option N :=
  match range_of (d_nd D) c with
  | Some (lo, _) => Some (N.modulo (c - lo) 10)
  | None => None
  end.

(* int(s) for a non-empty string of digits; None = ValueError *)
Fixpoint int_acc (D : dtables) (acc : N) (s : str) : option N :=
  match s with
  | [] => Some acc
  | c :: t => match digit_val D c with
              | Some v => int_acc D (acc * 10 + v) t
              | None => None
              end
  end.
Definition int_of (D : dtables) (s : str) : option N :=
  match s with [] => None | _ => int_acc D 0 s end.

(* int(s) as the interpreter performs it: None = ValueError (a non-decimal digit, or too many digits) *)
Definition py_int (D : dtables) (s : str) : option N :=
  if N.ltb (d_maxdigits D) (N.of_nat (length s)) then None else int_of D s.

Definition str_isdigit (D : dtables) (s : str) : bool :=
  match s with [] => false | _ => forallb (in_ranges (d_isdigit D)) s end.

Fixpoint take_while (P : N -> bool) (s : str) : str :=
  match s with
  | c :: t => if P c then c :: take_while P t else []
  | [] => []
  end.
