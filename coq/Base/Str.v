(* Base/Str.v -- strings as lists of code points, Python slicing, small
   list utilities shared by every model file.  Standard library only. *)
From Coq Require Export List NArith ZArith Bool Arith Lia.
Export ListNotations.

Definition str := list N.

Fixpoint str_eqb (a b : str) : bool :=
  match a, b with
  | [], [] => true
  | x :: a', y :: b' => N.eqb x y && str_eqb a' b'
  | _, _ => false
  end.

Lemma str_eqb_spec a b : reflect (a = b) (str_eqb a b).
Proof.
  revert b; induction a as [|x a IH]; intros [|y b]; cbn; try (constructor; congruence).
  destruct (N.eqb_spec x y) as [Hxy|Hn]; cbn.
  - destruct (IH b) as [Hab|Hn]; constructor; congruence.
  - constructor; congruence.
Qed.

Lemma str_eqb_eq a b : str_eqb a b = true <-> a = b.
Proof. destruct (str_eqb_spec a b); split; congruence. Qed.

Lemma str_eqb_refl a : str_eqb a a = true.
Proof. apply str_eqb_eq; reflexivity. Qed.

(* ---- Python slicing s[a:b] for possibly negative / out-of-range a, b ---- *)

Definition clampZ (len x : Z) : Z :=
  let x' := if (x <? 0)%Z then (x + len)%Z else x in
  if (x' <? 0)%Z then 0%Z else if (len <? x')%Z then len else x'.

Definition slice {A} (s : list A) (a b : nat) : list A := firstn (b - a) (skipn a s).

Definition pyslice {A} (s : list A) (a b : Z) : list A :=
  let len := Z.of_nat (length s) in
  slice s (Z.to_nat (clampZ len a)) (Z.to_nat (clampZ len b)).

Lemma slice_length {A} (s : list A) a b :
  a <= b -> b <= length s -> length (slice s a b) = b - a.
Proof. intros; unfold slice; rewrite firstn_length, skipn_length; lia. Qed.

Lemma slice_0 {A} (s : list A) b : slice s 0 b = firstn b s.
Proof. unfold slice; cbn; f_equal; lia. Qed.

Lemma slice_full {A} (s : list A) : slice s 0 (length s) = s.
Proof. rewrite slice_0; apply firstn_all. Qed.

Lemma firstn_plus {A} (l : list A) n m :
  firstn (n + m) l = firstn n l ++ firstn m (skipn n l).
Proof.
  revert l; induction n as [|n IH]; intros l; cbn; [reflexivity|].
  destruct l as [|x l]; cbn; [destruct m; reflexivity|]. f_equal; apply IH.
Qed.

Lemma skipn_plus {A} (l : list A) n m :
  skipn (n + m) l = skipn m (skipn n l).
Proof.
  revert l; induction n as [|n IH]; intros l; cbn; [reflexivity|].
  destruct l as [|x l]; cbn; [destruct m; reflexivity|]. apply IH.
Qed.

Lemma slice_app {A} (s : list A) a b c :
  a <= b -> b <= c -> slice s a b ++ slice s b c = slice s a c.
Proof.
  intros Hab Hbc; unfold slice.
  replace (c - a) with ((b - a) + (c - b)) by lia.
  rewrite firstn_plus; f_equal.
  rewrite <- skipn_plus. replace (a + (b - a)) with b by lia. reflexivity.
Qed.

Lemma slice_empty {A} (s : list A) a b : b <= a -> slice s a b = [].
Proof. intros; unfold slice; replace (b - a) with 0 by lia; reflexivity. Qed.

Lemma firstn_slice_skipn {A} (s : list A) a b :
  a <= b -> firstn a s ++ slice s a b = firstn b s.
Proof. intros; rewrite <- !slice_0; apply slice_app; lia. Qed.

Lemma slice_to_end {A} (s : list A) a : slice s a (length s) = skipn a s.
Proof.
  unfold slice. rewrite <- (skipn_length a s). apply firstn_all.
Qed.

(* ---- sums of lengths ---- *)

Definition total_len {A} (l : list (list A)) : nat := length (concat l).

Lemma total_len_app {A} (l1 l2 : list (list A)) :
  total_len (l1 ++ l2) = total_len l1 + total_len l2.
Proof. unfold total_len; rewrite concat_app, app_length; reflexivity. Qed.

(* ---- infix / prefix as booleans ---- *)

Fixpoint prefixb (p s : str) : bool :=
  match p, s with
  | [], _ => true
  | x :: p', y :: s' => N.eqb x y && prefixb p' s'
  | _ :: _, [] => false
  end.

Fixpoint infixb (p s : str) : bool :=
  prefixb p s || match s with [] => false | _ :: s' => infixb p s' end.

Lemma prefixb_spec p s : prefixb p s = true <-> exists r, s = p ++ r.
Proof.
  revert s; induction p as [|x p IH]; intros s; cbn.
  - split; [eauto|reflexivity].
  - destruct s as [|y s]; [split; [discriminate|intros [r Hr]; discriminate]|].
    rewrite andb_true_iff, N.eqb_eq, IH. split.
    + intros [-> [r ->]]; eauto.
    + intros [r Hr]; injection Hr as -> ->; eauto.
Qed.

Definition infix (p s : str) : Prop := exists a b, s = a ++ p ++ b.

Lemma infixb_spec p s : infixb p s = true <-> infix p s.
Proof.
  induction s as [|y s IH].
  - cbn. rewrite orb_false_r, prefixb_spec. split.
    + intros [r Hr]; exists [], r; exact Hr.
    + intros [a [b Hab]]. destruct a; cbn in Hab.
      * eauto.
      * discriminate.
  - cbn [infixb]. rewrite orb_true_iff, prefixb_spec, IH. split.
    + intros [[r Hr]|[a [b Hab]]].
      * exists [], r; exact Hr.
      * exists (y :: a), b; cbn; congruence.
    + intros [a [b Hab]]. destruct a as [|z a]; cbn in Hab.
      * left; eauto.
      * right; injection Hab as -> ->; exists a, b; reflexivity.
Qed.

(* ---- range tables (Unicode categories are generated as sorted range lists) ---- *)
Definition in_ranges (tbl : list (N * N)) (c : N) : bool :=
  existsb (fun r => N.leb (fst r) c && N.leb c (snd r)) tbl.
